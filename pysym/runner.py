"""Exploration driver: distributes decision prefixes over worker processes, collects verdicts, replays
counterexamples natively, validates path witnesses against native execution, writes evidence."""
import os
import sys
import json
import time
import random
import hashlib
import importlib
import threading
import traceback
import multiprocessing as mp
from collections import deque

import z3

from . import engine as E
from .engine import Engine, EngineSignal, PathEnd, Unmodelled, Inconclusive, BudgetExceeded, PathResult, NonTermination
from .api import SymCtx, ConcCtx, concretize_value
from . import models as M

VERIF = os.path.dirname(os.path.dirname(os.path.abspath(__file__)))
EXIT_OK, EXIT_VIOLATION, EXIT_ERROR, EXIT_INCONCLUSIVE = 0, 1, 2, 3

_INTERP = None
_SPECS = {}
PROGRESS = bool(os.environ.get("PYSYM_PROGRESS"))


class Spec:
    """one harness: fn(S, B); bounds per tier; required cover labels; native environment patches"""

    def __init__(self, name, fn, bounds, covers=(), native_patch=None, reset=None, validate=True, desc=""):
        self.name = name
        self.fn = fn
        self.bounds = bounds            # {"quick": {...}, "thorough": {...}}
        self.covers = list(covers)
        self.native_patch = native_patch  # context manager factory for native runs (fake clock etc.)
        self.reset = reset
        self.validate = validate
        self.desc = desc
        self.module = fn.__module__


def get_interp(extra_modules):
    global _INTERP
    if _INTERP is None:
        from .interp import Interp
        _INTERP = Interp(prefixes=("Pyro5",), extra_modules=set(extra_modules))
        from . import env, regex
        env.install(_INTERP)
        regex.install(_INTERP)
    else:
        _INTERP.extra_modules.update(extra_modules)
    return _INTERP


_GLOBAL_CONTAINERS = []     # (container, shallow copy at first use): module- and class-level dicts/lists/sets of Pyro5


def _snapshot_global_containers():
    import inspect
    seen = set()
    for name, mod in list(sys.modules.items()):
        if mod is None or not (name == "Pyro5" or name.startswith("Pyro5.")):
            continue
        owners = [mod] + [c for c in vars(mod).values() if inspect.isclass(c) and getattr(c, "__module__", "") == name]
        for owner in owners:
            for attr, val in list(vars(owner).items()):
                if type(val) in (dict, list, set) and id(val) not in seen and not (owner is mod and attr.startswith("__") and attr.endswith("__")):
                    seen.add(id(val))
                    _GLOBAL_CONTAINERS.append((val, val.copy()))


def _restore_global_containers():
    """module-level and class-level caches/registries of Pyro5 must not carry state from one explored path (or native
    replay) into the next: their contents are put back to what they were when the process first used them"""
    if not _GLOBAL_CONTAINERS:
        _snapshot_global_containers()
        return
    for val, saved in _GLOBAL_CONTAINERS:
        if type(val) is list:
            if val != saved:
                val[:] = saved
        elif val != saved:
            val.clear()
            val.update(saved)


def default_reset():
    import Pyro5
    from Pyro5 import config
    config.reset(False)
    _restore_global_containers()
    try:
        from Pyro5 import callcontext
        ctx = callcontext.current_context
        ctx.client = None
        ctx.client_sock_addr = None
        ctx.seq = 0
        ctx.msg_flags = 0
        ctx.serializer_id = 0
        ctx.annotations = {}
        ctx.response_annotations = {}
        ctx.correlation_id = None
    except Exception:
        pass


def run_one_path(spec, tier, prefix, seed, known_active, deadline_s=120.0, timeout_ms=20000):
    """execute one path symbolically; returns PathResult (with .witness/.observations for validation)"""
    interp = get_interp([spec.module] + list(getattr(sys.modules[spec.module], "INTERPRET_MODULES", [])))
    interp.symdict_functions = set(getattr(sys.modules[spec.module], "SYMDICT_FUNCTIONS", []))
    _install_stubs(interp, getattr(sys.modules[spec.module], "STUBS", []))
    eng = Engine(prefix=prefix, timeout_ms=timeout_ms, seed=seed)
    if E.XCHECK["rate"] < 0:
        E.XCHECK["rate"] = 0.02 if tier == "quick" else 0.05
    E.set_current(eng)
    S = SymCtx(eng, interp, known_active)
    interp.exc_stack = []
    interp.depth = 0
    (spec.reset or default_reset)()
    res = eng.res
    B = spec.bounds[tier]
    t0 = time.perf_counter()
    try:
        interp.call(spec.fn, S, B)
    except PathEnd:
        if res.status == "ok":
            res.status = "pruned"
    except Inconclusive as x:
        res.status = "inconclusive"
        res.error = "inconclusive: %s" % x
    except NonTermination as x:
        # violation candidate: the native replay (under a watchdog) decides whether the real code hangs on this input
        try:
            mdl = eng.model()
            if mdl is not None:
                res.violations.append({"label": "terminates", "witness": S._witness(mdl), "decisions": list(eng.trace)})
                res.status = "violation"
                res.notes.append("non-termination candidate: %s" % x)
            else:
                res.status = "pruned"
        except EngineSignal:
            res.status = "inconclusive"
            res.error = "non-termination candidate without a model: %s" % x
    except BudgetExceeded as x:
        res.status = "inconclusive"
        res.error = "budget: %s" % x
    except Unmodelled as x:
        res.status = "error"
        res.error = "Unmodelled: %s\n%s" % (x, _short_tb())
    except EngineSignal as x:
        res.status = "error"
        res.error = "engine signal %r" % (x,)
    except RecursionError as x:
        res.status = "error"
        res.error = "RecursionError in interpreter"
    except BaseException as x:
        # an exception escaping the harness itself is a harness bug
        res.status = "error"
        res.error = "harness raised %s: %s\n%s" % (type(x).__name__, _safe_str(x), _short_tb())
    finally:
        E.set_current(None)
    res.decisions = list(eng.trace)
    if res.status in ("ok", "violation") and spec.validate:
        E.set_current(eng)
        try:
            mdl = eng.model()
            if mdl is not None:
                res.witness = S._witness(mdl)
                res.observations = [(k, concretize_value(mdl, v)) for k, v in S.observations]
        except EngineSignal:
            pass
        finally:
            E.set_current(None)
    return res


_STUB_KEYS = []


def _stub_key(owner, attr):
    v = None
    if isinstance(owner, type):
        for k in owner.__mro__:
            if attr in k.__dict__:
                v = k.__dict__[attr]
                break
    else:
        v = getattr(owner, attr)
    if isinstance(v, (staticmethod, classmethod)):
        v = v.__func__
    return v


def _install_stubs(interp, stubs):
    """harness-declared replacements of environment functions (symbolic mode: 'always' models that interpret
    the replacement)"""
    global _STUB_KEYS
    for k in _STUB_KEYS:
        interp.always.pop(k, None)
    _STUB_KEYS = []
    for owner, attr, repl, modes in stubs:
        if modes not in ("both", "symbolic"):
            continue
        key = _stub_key(owner, attr)

        def mk(repl):
            return lambda interp_, args, kwargs: interp_.call_value(repl, args, kwargs)
        interp.always[key] = mk(repl)
        _STUB_KEYS.append(key)


class _NativeStubs:
    def __init__(self, stubs):
        from unittest import mock
        self.patches = [mock.patch.object(owner, attr, repl) for owner, attr, repl, modes in stubs if modes in ("both", "native")]

    def __enter__(self):
        for p in self.patches:
            p.__enter__()

    def __exit__(self, *a):
        for p in reversed(self.patches):
            p.__exit__(None, None, None)


def _safe_str(x):
    try:
        return str(x)[:500]
    except BaseException:
        return "<unprintable>"


def _short_tb(limit=12):
    tb = traceback.format_exc().splitlines()
    keep = [l for l in tb if "/pysym/interp.py" not in l and "self.eval(" not in l and "self.exec_" not in l
            and "^^^" not in l and "return m(node, env)" not in l and "self.call_value(" not in l]
    return "\n".join(keep[-limit:])


def run_native(spec, tier, witness):
    """run the harness natively on CPython with the concrete values of a witness"""
    S = ConcCtx(witness)
    (spec.reset or default_reset)()
    B = spec.bounds[tier]
    cm = spec.native_patch(S) if spec.native_patch else None
    stubs = _NativeStubs(getattr(sys.modules[spec.module], "STUBS", []))
    err = None
    import signal
    import threading

    class _Hang(BaseException):
        pass

    def _alarm(signum, frame):
        raise _Hang()
    watchdog = threading.current_thread() is threading.main_thread()
    if watchdog:
        old_handler = signal.signal(signal.SIGALRM, _alarm)
        signal.setitimer(signal.ITIMER_REAL, NATIVE_WATCHDOG_S)
    try:
        if cm is not None:
            cm.__enter__()
        stubs.__enter__()
        try:
            spec.fn(S, B)
        finally:
            if watchdog:
                signal.setitimer(signal.ITIMER_REAL, 0)
            stubs.__exit__()
            if cm is not None:
                cm.__exit__(None, None, None)
    except PathEnd:
        pass
    except _Hang:
        # the real code did not come back within the watchdog period on this input
        S.failed.append("terminates")
    except BaseException as x:
        err = "%s: %s" % (type(x).__name__, _safe_str(x))
    finally:
        if watchdog:
            signal.setitimer(signal.ITIMER_REAL, 0)
            signal.signal(signal.SIGALRM, old_handler)
    return S, err


# ------------------------------------------------------------------------------------------------
# worker side

def _load_spec(modname, specname):
    key = (modname, specname)
    if key not in _SPECS:
        mod = importlib.import_module(modname)
        for s in mod.SPECS:
            _SPECS[(modname, s.name)] = s
    return _SPECS[key]


def _worker_task(task):
    (modname, specname, tier, prefix, seed, known_active, max_paths, max_s, validate_budget) = task
    out = {"paths": [], "leftover": [], "models": [], "encoded": {}}
    result_box = {}

    def body():
        try:
            spec = _load_spec(modname, specname)
            stack = [prefix]
            t0 = time.perf_counter()
            n = 0
            rnd = random.Random(hash((seed, tuple(prefix))) & 0xffffffff)
            while stack:
                if n >= max_paths or (time.perf_counter() - t0) > max_s:
                    break
                p = stack.pop()
                r = run_one_path(spec, tier, p, seed, known_active)
                n += 1
                stack.extend(r.pending)
                summ = {"status": r.status, "obligations": r.obligations, "discharged": r.discharged,
                        "queries": r.queries, "solver_s": r.solver_s, "decisions": len(r.decisions),
                        "covers": sorted(r.covers), "violations": r.violations, "knowns": r.knowns,
                        "error": r.error, "assumes": r.assumes, "unwind_hits": r.unwind_hits, "notes": r.notes,
                        "unknowns": r.unknowns, "validated": None, "sample": None,
                        "xchecked": r.xchecked, "xagree": r.xagree, "xunknown": r.xunknown}
                # path-witness validation against native execution
                if r.witness is not None and r.status == "ok" and validate_budget > 0 and spec.validate:
                    if rnd.random() < validate_budget:
                        S, err = run_native(spec, tier, r.witness)
                        if err is not None:
                            summ["validated"] = "native run raised " + err
                        elif S.assume_failed:
                            summ["validated"] = "native run left the assumed domain"
                        elif [c for c in S.failed if c not in {k["check"] for k in r.knowns}]:
                            summ["validated"] = "native run failed checks %s that were discharged symbolically" % S.failed
                        elif S.observations != [(k, v) for k, v in r.observations]:
                            summ["validated"] = "observations differ: symbolic %r native %r" % (
                                _firstdiff(r.observations, S.observations))
                        else:
                            summ["validated"] = True
                        if summ["validated"] is not True:
                            summ["sample"] = {"witness": r.witness}
                if r.witness is not None and rnd.random() < 0.02:
                    summ["sample"] = {"witness": r.witness, "observations": r.observations[:6] if r.observations else None}
                out["paths"].append(summ)
            out["leftover"] = stack
            if _INTERP is not None:
                out["encoded"] = dict(_INTERP.encoded)
            out["models"] = sorted(M.USED)
        except BaseException as x:
            out["fatal"] = "%s: %s\n%s" % (type(x).__name__, _safe_str(x), traceback.format_exc()[-1500:])
        result_box["out"] = out

    th = threading.Thread(target=body)
    th.start()
    th.join()
    return result_box.get("out", {"fatal": "worker thread died", "paths": [], "leftover": []})


def _firstdiff(a, b):
    a = list(a or [])
    b = list(b or [])
    for x, y in zip(a, b):
        if tuple(x) != tuple(y):
            return (x, y)
    return (a[len(b):][:1], b[len(a):][:1])


def _worker_init():
    threading.stack_size(512 * 1024 * 1024)
    sys.setrecursionlimit(100000)


# ------------------------------------------------------------------------------------------------
# master side

class Summary:
    def __init__(self, spec, tier):
        self.spec = spec.name
        self.tier = tier
        self.paths = 0
        self.by_status = {}
        self.obligations = 0
        self.discharged = 0
        self.queries = 0
        self.solver_s = 0.0
        self.decisions = 0
        self.covers = set()
        self.violations = []
        self.knowns = {}
        self.errors = []
        self.assumes = set()
        self.unwind_hits = 0
        self.validated = 0
        self.validation_failures = []
        self.samples = []
        self.encoded = {}
        self.models = set()
        self.notes = set()
        self.unknowns = 0
        self.xchecked = 0
        self.xagree = 0
        self.xunknown = 0
        self.wall_s = 0.0
        self.incomplete = None
        self.viol_by_label = {}
        self.artifacts = set()       # labels whose symbolic counterexample did not reproduce natively (model artefacts on this tree)
        self.confirmed = set()
        self.bounds = spec.bounds[tier]
        self.missing_covers = []


NATIVE_WATCHDOG_S = float(os.environ.get("PYSYM_NATIVE_WATCHDOG", "20"))
MAX_VIOLATED_PATHS = int(os.environ.get("PYSYM_MAX_VIOLATED", "400"))


def explore(spec, tier, seed=0, nproc=None, known_active=(), time_limit_s=None, validate_rate=None, pool=None):
    nproc = nproc or min(16, os.cpu_count() or 4)
    summ = Summary(spec, tier)
    t0 = time.perf_counter()
    queue = deque([[]])
    outstanding = set()
    own_pool = pool is None
    if own_pool:
        ctx = mp.get_context("fork")
        pool = ctx.Pool(nproc, initializer=_worker_init)
    if validate_rate is None:
        validate_rate = 1.0 if tier == "quick" else 0.25
    last_print = [time.perf_counter()]
    try:
        done_paths = 0
        while queue or outstanding:
            while queue and len(outstanding) < nproc * 2:
                p = queue.popleft()
                if done_paths < nproc * 3:
                    mx, ms = 2, 10.0
                elif done_paths < nproc * 40:
                    mx, ms = 15, 15.0
                else:
                    mx, ms = 80, 25.0
                task = (spec.module, spec.name, tier, p, seed, tuple(known_active), mx, ms, validate_rate)
                outstanding.add(pool.apply_async(_worker_task, (task,)))
            if PROGRESS and time.perf_counter() - last_print[0] > 10:
                last_print[0] = time.perf_counter()
                print("  .. %s: %d paths done, %d prefixes queued, %d tasks out, %.0fs" % (spec.name, done_paths, len(queue), len(outstanding), time.perf_counter() - t0), flush=True)
            ready = [a for a in outstanding if a.ready()]
            if not ready:
                time.sleep(0.005)
                if time_limit_s and time.perf_counter() - t0 > time_limit_s:
                    summ.incomplete = "time limit of %ds reached with work outstanding" % time_limit_s
                    break
                continue
            for a in ready:
                outstanding.discard(a)
                out = a.get()
                if out.get("fatal"):
                    summ.errors.append(out["fatal"])
                for r in out["paths"]:
                    done_paths += 1
                    _merge_path(summ, r)
                queue.extend(out["leftover"])
                summ.encoded.update(out.get("encoded", {}))
                summ.models.update(out.get("models", []))
            if time_limit_s and time.perf_counter() - t0 > time_limit_s:
                summ.incomplete = "time limit of %ds reached with work outstanding" % time_limit_s
                break
            if sum(c for lab, c in summ.viol_by_label.items() if lab not in summ.artifacts) >= MAX_VIOLATED_PATHS and (queue or outstanding):
                # enough counterexamples to report -- provided they are real: one per label is replayed natively now; labels
                # whose counterexample does not reproduce are artefacts of a model that does not fit this tree, they no longer
                # count and the exploration goes on (real violations may still be found, also by the native path validation)
                for v in summ.violations:
                    lab = v["label"]
                    if lab in summ.artifacts or lab in summ.confirmed:
                        continue
                    Sn, err = run_native(spec, tier, v["witness"])
                    if err or Sn.failed:
                        summ.confirmed.add(lab)
                    else:
                        summ.artifacts.add(lab)
                if summ.confirmed:
                    summ.incomplete = "exploration stopped after %d violated paths" % summ.by_status.get("violation", 0)
                    break
    finally:
        if own_pool:
            pool.terminate()
            pool.join()
    summ.wall_s = time.perf_counter() - t0
    summ.missing_covers = [c for c in spec.covers if c not in summ.covers]
    return summ


def _merge_path(summ, r):
    summ.paths += 1
    summ.by_status[r["status"]] = summ.by_status.get(r["status"], 0) + 1
    summ.obligations += r["obligations"]
    summ.discharged += r["discharged"]
    summ.queries += r["queries"]
    summ.solver_s += r["solver_s"]
    summ.decisions += r["decisions"]
    summ.covers.update(r["covers"])
    summ.unwind_hits += r["unwind_hits"]
    summ.unknowns += r["unknowns"]
    summ.xchecked += r.get("xchecked", 0)
    summ.xagree += r.get("xagree", 0)
    summ.xunknown += r.get("xunknown", 0)
    summ.assumes.update(r["assumes"])
    summ.notes.update(r["notes"])
    for v in r["violations"]:
        n = summ.viol_by_label.get(v["label"], 0)
        summ.viol_by_label[v["label"]] = n + 1
        if n < 2 and len(summ.violations) < 120:
            summ.violations.append(v)
    for k in r["knowns"]:
        summ.knowns.setdefault(k["label"], k)
    if r["error"]:
        if len(summ.errors) < 20:
            summ.errors.append("[%s] %s" % (r["status"], r["error"]))
    if r["validated"] is True:
        summ.validated += 1
    elif r["validated"]:
        real = str(r["validated"]).startswith("native run failed checks")      # a real failing execution: never crowded out
        if len([v for v in summ.validation_failures if str(v["why"]).startswith("native run failed checks") == real]) < 10:
            summ.validation_failures.append({"why": r["validated"], "sample": r["sample"]})
    if r["sample"] and len(summ.samples) < 6:
        summ.samples.append(r["sample"])
