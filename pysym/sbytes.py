"""SymBytes: bytes/bytearray/memoryview as a rope of
   BPart  -- concrete length, per-byte Int terms (0..255)
   OPart  -- opaque piece (stream name, offset, length) of an uninterpreted byte stream; offset and
             length may be symbolic.  Content of opaque pieces is never inspected (Unmodelled).
"""
import z3
from . import engine as E
from .engine import Unmodelled
from .values import Sym, SymInt, mkbool, mkint, iterm, And, Not


class BPart:
    __slots__ = ("terms",)

    def __init__(self, terms):
        self.terms = list(terms)

    def plen(self):
        return len(self.terms)


class OPart:
    __slots__ = ("stream", "off", "ln")

    def __init__(self, stream, off, ln):
        self.stream = stream
        self.off = off      # int | SymInt
        self.ln = ln        # int | SymInt

    def plen(self):
        return self.ln


def stream_content(stream, n):
    """deterministic concrete content of opaque stream `stream` (used for witnesses / native replay)"""
    h = 0
    for ch in stream:
        h = (h * 131 + ord(ch)) & 0xFFFFFFFF
    out = bytearray(n)
    x = h or 1
    for i in range(n):
        x = (x * 1103515245 + 12345) & 0x7FFFFFFF
        out[i] = (x >> 16) & 0xFF
    return bytes(out)


class SymBytes(Sym):
    __slots__ = ("parts", "kind")

    def __init__(self, parts, kind="bytes"):
        self.parts = [p for p in parts if not (isinstance(p.plen(), int) and p.plen() == 0)]
        self.kind = kind

    # ---- construction ------------------------------------------------------------------------
    @staticmethod
    def lift(x, kind=None):
        if isinstance(x, SymBytes):
            return x
        if isinstance(x, (bytes, bytearray, memoryview)):
            k = "bytes" if isinstance(x, bytes) else ("bytearray" if isinstance(x, bytearray) else "memoryview")
            return SymBytes([BPart([z3.IntVal(b) for b in bytes(x)])], kind or k)
        raise Unmodelled("SymBytes.lift(%r)" % type(x))

    @staticmethod
    def fresh(name, n, kind="bytes"):
        eng = E.current()
        ts = [z3.Int("%s.b%d" % (name, i)) for i in range(n)]
        for t in ts:
            eng.add(z3.And(t >= 0, t <= 255))
        return SymBytes([BPart(ts)], kind)

    @staticmethod
    def opaque(stream, length, off=0, kind="bytes"):
        return SymBytes([OPart(stream, off, length)], kind)

    def with_kind(self, kind):
        return SymBytes(list(self.parts), kind)

    def _short(self):
        return "%s parts=%d" % (self.kind, len(self.parts))

    __hash__ = Sym.__hash__

    # ---- basics ------------------------------------------------------------------------------
    def length(self):
        tot = 0
        for p in self.parts:
            tot = tot + p.plen()
        return tot

    def is_plain(self):
        return all(isinstance(p, BPart) for p in self.parts)

    def terms(self):
        if not self.is_plain():
            raise Unmodelled("inspecting the content of opaque bytes")
        out = []
        for p in self.parts:
            out.extend(p.terms)
        return out

    def __len__(self):
        n = self.length()
        if isinstance(n, int):
            return n
        return E.current().concretize(n.term, 0)

    def __bool__(self):
        n = self.length()
        if isinstance(n, int):
            return n != 0
        return E.current().branch(n.term != 0)

    def is_concrete(self):
        return self.is_plain() and all(z3.is_int_value(t) for t in self.terms())

    def concrete(self):
        return bytes(t.as_long() for t in self.terms())

    def eval(self, model):
        out = bytearray()
        for p in self.parts:
            if isinstance(p, BPart):
                out.extend(E.z3val(model, t) for t in p.terms)
            else:
                off = p.off if isinstance(p.off, int) else E.z3val(model, p.off.term)
                ln = p.ln if isinstance(p.ln, int) else E.z3val(model, p.ln.term)
                if ln > 0:
                    out.extend(stream_content(p.stream, off + ln)[off:off + ln])
        return bytes(out)

    # ---- concatenation -----------------------------------------------------------------------
    def __add__(self, other):
        if not isinstance(other, (bytes, bytearray, memoryview, SymBytes)):
            return NotImplemented
        o = SymBytes.lift(other)
        return SymBytes(_merge(self.parts + o.parts), self.kind)

    def __radd__(self, other):
        if not isinstance(other, (bytes, bytearray, memoryview)):
            return NotImplemented
        o = SymBytes.lift(other)
        return SymBytes(_merge(o.parts + self.parts), o.kind)

    def __iadd__(self, other):
        if self.kind == "bytearray":
            self.extend(other)
            return self
        return self.__add__(other)

    def extend(self, other):
        if self.kind != "bytearray":
            raise AttributeError("'%s' object has no attribute 'extend'" % self.kind)
        o = SymBytes.lift(other)
        self.parts = _merge(self.parts + o.parts)

    def join(self, items):
        if self.length() != 0:
            raise Unmodelled("bytes.join with non-empty separator")
        parts = []
        for it in items:
            parts.extend(SymBytes.lift(it).parts)
        return SymBytes(_merge(parts), "bytes")

    # ---- slicing -----------------------------------------------------------------------------
    def __getitem__(self, idx):
        if isinstance(idx, slice):
            if idx.step not in (None, 1):
                raise Unmodelled("bytes slice with step")
            return self.slice(idx.start, idx.stop)
        eng = E.current()
        if isinstance(idx, SymInt):
            idx = eng.concretize(idx.term)
        if idx < 0:
            idx += len(self)
        pos = 0
        for p in self.parts:
            pl = p.plen()
            if isinstance(p, BPart) and isinstance(pos, int):
                if idx < pos + pl:
                    if idx < pos:
                        break
                    return mkint(p.terms[idx - pos], 8)
            else:
                raise Unmodelled("indexing into/after opaque bytes")
            pos = pos + pl
        raise IndexError("index out of range")

    def slice(self, a, b):
        """python slice semantics [a:b]; forks where the position relative to a symbolic part boundary is open"""
        L = self.length()
        if a is None:
            a = 0
        if b is None:
            b = L
        if isinstance(a, int) and a < 0:
            if not isinstance(L, int):
                L = len(self)
            a = max(0, a + L)
        if isinstance(b, int) and b < 0:
            if not isinstance(L, int):
                L = len(self)
            b = max(0, b + L)
        if isinstance(a, SymInt) and (a < 0):
            raise Unmodelled("negative symbolic slice start")
        if isinstance(b, SymInt) and (b < 0):
            raise Unmodelled("negative symbolic slice stop")
        if b > L:
            b = L
        if a > b:
            a = b
        out = []
        pos = 0
        for p in self.parts:
            pl = p.plen()
            pend = pos + pl
            if pend <= a:
                pos = pend
                continue
            if pos >= b:
                break
            s = (a - pos) if a > pos else 0
            e = (b - pos) if b < pend else pl
            if isinstance(p, BPart):
                if not isinstance(s, int):
                    s = E.current().concretize(s.term, 0, pl)
                if not isinstance(e, int):
                    e = E.current().concretize(e.term, 0, pl)
                out.append(BPart(p.terms[s:e]))
            else:
                out.append(OPart(p.stream, p.off + s, e - s))
            pos = pend
        kind = self.kind if self.kind != "bytearray" else "bytearray"
        return SymBytes(_merge(out), kind)

    def __iter__(self):
        for t in self.terms():
            yield mkint(t, 8)

    # ---- comparisons -------------------------------------------------------------------------
    def eq(self, other):
        o = SymBytes.lift(other)
        if self.is_plain() and o.is_plain():
            a, b = self.terms(), o.terms()
            if len(a) != len(b):
                return False
            return mkbool(z3.And(*[x == y for x, y in zip(a, b)])) if a else True
        pa, pb = _merge(self.parts), _merge(o.parts)
        if not pa or not pb:
            return mkbool(iterm(self.length()) == iterm(o.length()))
        # piecewise comparison: same shape after merging
        if len(pa) == len(pb) and all(type(x) is type(y) for x, y in zip(pa, pb)):
            conj = []
            for x, y in zip(pa, pb):
                if isinstance(x, BPart):
                    if len(x.terms) != len(y.terms):
                        return False
                    conj.extend(u == v for u, v in zip(x.terms, y.terms))
                else:
                    if x.stream != y.stream:
                        raise Unmodelled("comparing pieces of different opaque streams")
                    conj.append(iterm(x.ln) == iterm(y.ln))
                    conj.append(z3.Or(iterm(x.ln) == 0, iterm(x.off) == iterm(y.off)))
            return mkbool(z3.And(*conj)) if conj else True
        # try: both are contiguous over one stream
        ca, cb = self.contiguous(), o.contiguous()
        if ca is not None and cb is not None and ca[0] == cb[0]:
            return And(mkbool(iterm(ca[2]) == iterm(cb[2])), ca[3], cb[3],
                       mkbool(z3.Or(iterm(ca[2]) == 0, iterm(ca[1]) == iterm(cb[1]))))
        raise Unmodelled("equality of byte ropes with different shapes")

    def __eq__(self, other):
        if not isinstance(other, (bytes, bytearray, memoryview, SymBytes)):
            return False
        return self.eq(other)

    def __ne__(self, other):
        return Not(self.__eq__(other))

    def contiguous(self):
        """if all parts are opaque pieces of one stream: (stream, off0, total_len, cond) where cond says the
        pieces follow each other without gap or overlap (empty pieces ignored)"""
        if not self.parts:
            return None
        if not all(isinstance(p, OPart) for p in self.parts):
            return None
        st = self.parts[0].stream
        if any(p.stream != st for p in self.parts):
            return None
        conds = []
        off0 = iterm(self.parts[0].off)
        run = off0
        # position bookkeeping with possibly-empty pieces: an empty piece imposes no constraint
        tot = z3.IntVal(0)
        first = True
        start = None
        for p in self.parts:
            ln = iterm(p.ln)
            off = iterm(p.off)
            if first:
                start = off
                run = off + ln
                first = False
            else:
                conds.append(z3.Or(ln == 0, off == run))
                run = z3.If(ln == 0, run, off + ln)
            tot = tot + ln
        return (st, mkint(start), mkint(tot), mkbool(z3.And(*conds)) if conds else True)

    def covers(self, stream, start, length):
        """SymBool: this value is exactly stream[start:start+length] (pieces in order, no gap, no overlap)"""
        if not self.parts:
            return mkbool(iterm(length) == 0)
        c = self.contiguous()
        if c is None or c[0] != stream:
            return False
        # all pieces must be non-overlapping consecutive; first non-empty piece starts at `start`
        conj = [iterm(c[2]) == iterm(length)]
        run = iterm(start)
        for p in self.parts:
            ln, off = iterm(p.ln), iterm(p.off)
            conj.append(z3.Or(ln == 0, off == run))
            conj.append(ln >= 0)
            run = run + ln
        return mkbool(z3.And(*conj))

    # ---- bytes API ---------------------------------------------------------------------------
    def startswith(self, prefix):
        prefix = SymBytes.lift(prefix)
        pt = prefix.terms()
        n = self.length()
        got = []
        for p in self.parts:
            if len(got) >= len(pt):
                break
            if isinstance(p, BPart):
                got.extend(p.terms)
            else:
                raise Unmodelled("startswith over opaque bytes")
        if len(got) < len(pt):
            return False
        return mkbool(z3.And(*[x == y for x, y in zip(got, pt)])) if pt else True

    def decode(self, encoding="utf-8", errors="strict"):
        from .strings import StrVec
        enc = encoding.lower().replace("-", "").replace("_", "")
        ts = self.terms()
        eng = E.current()
        if enc == "ascii":
            for i, t in enumerate(ts):
                if not eng.branch(t < 128):
                    raise UnicodeDecodeError("ascii", b"?", i, i + 1, "ordinal not in range(128)")
            return StrVec.from_terms(ts).maybe_concrete()
        if enc in ("utf8",):
            for i, t in enumerate(ts):
                if not eng.must_hold(t < 128):
                    raise Unmodelled("utf-8 decode of possibly non-ascii symbolic bytes")
            return StrVec.from_terms(ts).maybe_concrete()
        raise Unmodelled("decode(%r)" % encoding)

    def tobytes(self):
        return self.with_kind("bytes")

    def hex(self):
        raise Unmodelled("hex() of symbolic bytes")

    def release(self):
        return None

    def __enter__(self):
        return self

    def __exit__(self, *a):
        return False


def _merge(parts):
    """merge adjacent BParts, and adjacent OParts that are provably consecutive (syntactically)"""
    out = []
    for p in parts:
        if isinstance(p.plen(), int) and p.plen() == 0:
            continue
        if out and isinstance(p, BPart) and isinstance(out[-1], BPart):
            out[-1] = BPart(out[-1].terms + p.terms)
            continue
        if out and isinstance(p, OPart) and isinstance(out[-1], OPart) and out[-1].stream == p.stream:
            q = out[-1]
            end = z3.simplify(iterm(q.off) + iterm(q.ln))
            if z3.eq(end, z3.simplify(iterm(p.off))):
                out[-1] = OPart(q.stream, q.off, mkint(iterm(q.ln) + iterm(p.ln)))
                continue
        out.append(p)
    return out


def _byte_bits_registry():
    eng = E.current()
    reg = eng.memo.get("byte_bits")
    if reg is None:
        reg = eng.memo["byte_bits"] = {}
    return reg


def terms_to_int(ts):
    """big-endian byte terms -> SymInt/int; keeps the bit decomposition when every byte was built from bits"""
    reg = _byte_bits_registry()
    bits = []
    ok = True
    for t in reversed(ts):
        b = reg.get(t.get_id()) if not z3.is_int_value(t) else [z3.BoolVal(bool((t.as_long() >> i) & 1)) for i in range(8)]
        if b is None:
            ok = False
            break
        bits.extend(b)
    if ok and ts and not all(z3.is_int_value(t) for t in ts):
        return SymInt.from_bits(bits)
    tot = z3.IntVal(0)
    for t in ts:
        tot = tot * 256 + t
    tot = z3.simplify(tot)
    if z3.is_int_value(tot):
        return tot.as_long()
    return SymInt(tot, 8 * len(ts), None, list(ts))


def int_from_bytes(b, byteorder="big", signed=False):
    b = SymBytes.lift(b)
    ts = b.terms()
    if signed:
        raise Unmodelled("signed from_bytes")
    if byteorder == "little":
        ts = list(reversed(ts))
    return terms_to_int(ts)


def int_to_bytes(v, length, byteorder="big"):
    """split a symbolic non-negative int into `length` byte terms; raises OverflowError on the paths where it
    does not fit.  Values with a known bit width are split through their bit decomposition (no fresh bytes)."""
    eng = E.current()
    if isinstance(v, int):
        return SymBytes.lift(v.to_bytes(length, byteorder))
    if not eng.branch(z3.And(v.term >= 0, v.term < (1 << (8 * length)))):
        raise OverflowError("int too big to convert")
    if v._bits is not None or v.width is not None:
        bits = list(v.bits())[:8 * length]
        bits = bits + [z3.BoolVal(False)] * (8 * length - len(bits))
        reg = _byte_bits_registry()
        bs = []
        for j in range(length - 1, -1, -1):        # big-endian: most significant byte first
            bb = bits[8 * j:8 * j + 8]
            t = z3.Sum([z3.If(x, z3.IntVal(1 << i), z3.IntVal(0)) for i, x in enumerate(bb)])
            t = z3.simplify(t)
            if not z3.is_int_value(t):
                reg[t.get_id()] = bb
                eng.memo.setdefault("keepalive", []).append(t)
            bs.append(t)
    else:
        bs = [eng.fresh("byte", "int") for _ in range(length)]
        for x in bs:
            eng.add(z3.And(x >= 0, x <= 255))
        tot = z3.IntVal(0)
        for x in bs:
            tot = tot * 256 + x
        eng.add(tot == v.term)
    if byteorder == "little":
        bs = list(reversed(bs))
    return SymBytes([BPart(bs)])
