"""sequential in-process exploration for debugging:  python -m pysym.debug harness.C06_protocol roundtrip quick [maxpaths]"""
import sys
import time
import importlib
import threading

sys.path.insert(0, "/verif")
from pysym import runner as R      # noqa


def main():
    modname, specname, tier = sys.argv[1:4]
    maxpaths = int(sys.argv[4]) if len(sys.argv) > 4 else 50
    mod = importlib.import_module(modname)
    spec = [s for s in mod.SPECS if s.name == specname][0]
    stack = [[]]
    n = 0
    t00 = time.time()
    stats = {}
    while stack and n < maxpaths:
        p = stack.pop()
        t0 = time.time()
        r = R.run_one_path(spec, tier, p, 0, ())
        dt = time.time() - t0
        n += 1
        stack.extend(r.pending)
        stats[r.status] = stats.get(r.status, 0) + 1
        print("#%d %s dec=%d q=%d solver=%.2fs wall=%.2fs pending+%d covers=%s" % (
            n, r.status, len(r.decisions), r.queries, r.solver_s, dt, len(r.pending), sorted(c for c in r.covers if not c.startswith("check:"))), flush=True)
        if r.error:
            print("   ERROR:", r.error)
        for v in r.violations:
            print("   VIOLATION", v["label"], v["witness"], r.notes)
    from pysym import engine as EE
    if EE.FORKSITES:
        for k, v in sorted(EE.FORKSITES.items(), key=lambda kv: -kv[1])[:15]:
            print("  forks %6d  %s" % (v, k))
    print("paths", n, stats, "stack left", len(stack), "wall %.1fs" % (time.time() - t00))


if __name__ == "__main__":
    threading.stack_size(512 * 1024 * 1024)
    sys.setrecursionlimit(100000)
    t = threading.Thread(target=main)
    t.start()
    t.join()
