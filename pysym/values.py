"""Symbolic value wrappers.  They never turn themselves silently into one arbitrary concrete value:
__bool__ forks through the engine (sound), __index__/__hash__/__str__/__int__ raise Unmodelled."""
import z3
from . import engine as E
from .engine import Unmodelled


class Sym:
    __slots__ = ()

    def __hash__(self):
        raise Unmodelled("hash() of symbolic value %r" % type(self).__name__)

    def __index__(self):
        raise Unmodelled("__index__ of symbolic value (silent concretisation refused)")

    def __str__(self):
        raise Unmodelled("str() of symbolic %s reached native code" % type(self).__name__)

    def __repr__(self):
        return "<%s %s>" % (type(self).__name__, self._short())

    def _short(self):
        return "?"

    def __reduce__(self):
        raise Unmodelled("pickling symbolic value")


def is_sym(x):
    return isinstance(x, Sym)


# ------------------------------------------------------------------------------------------------
# booleans

class SymBool(Sym):
    __slots__ = ("term",)

    def __init__(self, term):
        self.term = term

    def _short(self):
        s = str(self.term)
        return s if len(s) < 80 else s[:77] + "..."

    def __bool__(self):
        return E.current().branch(self.term)

    def __eq__(self, other):
        return SymBool(self.term == bterm(other))

    def __ne__(self, other):
        return SymBool(self.term != bterm(other))

    def __and__(self, other):
        return And(self, other)

    __rand__ = __and__

    def __or__(self, other):
        return Or(self, other)

    __ror__ = __or__

    def __invert__(self):
        return Not(self)

    __hash__ = Sym.__hash__


def bterm(x):
    if isinstance(x, SymBool):
        return x.term
    if isinstance(x, bool):
        return z3.BoolVal(x)
    if isinstance(x, SymInt):
        return x.term != 0
    if isinstance(x, int):
        return z3.BoolVal(bool(x))
    if z3.is_expr(x):
        return x
    raise Unmodelled("cannot use %r as a symbolic boolean" % (type(x),))


def mkbool(t):
    """z3 bool term -> python bool if constant else SymBool"""
    t = z3.simplify(t)
    if z3.is_true(t):
        return True
    if z3.is_false(t):
        return False
    return SymBool(t)


def And(*xs):
    if all(isinstance(x, bool) for x in xs):
        return all(xs)
    if any(x is False for x in xs):
        return False
    ts = [bterm(x) for x in xs if x is not True]
    return mkbool(z3.And(*ts)) if ts else True


def Or(*xs):
    if all(isinstance(x, bool) for x in xs):
        return any(xs)
    if any(x is True for x in xs):
        return True
    ts = [bterm(x) for x in xs if x is not False]
    return mkbool(z3.Or(*ts)) if ts else False


def Not(x):
    if isinstance(x, bool):
        return not x
    return mkbool(z3.Not(bterm(x)))


def Implies(a, b):
    return Or(Not(a), b)


def Iff(a, b):
    if isinstance(a, bool) and isinstance(b, bool):
        return a == b
    return mkbool(bterm(a) == bterm(b))


def ite(c, a, b):
    """symbolic if-then-else over ints"""
    if isinstance(c, bool):
        return a if c else b
    return mkint(z3.If(bterm(c), iterm(a), iterm(b)))


# ------------------------------------------------------------------------------------------------
# integers

def iterm(x):
    if isinstance(x, SymInt):
        return x.term
    if isinstance(x, bool):
        return z3.IntVal(int(x))
    if isinstance(x, int):
        return z3.IntVal(x)
    if isinstance(x, SymBool):
        return z3.If(x.term, z3.IntVal(1), z3.IntVal(0))
    if z3.is_expr(x):
        return x
    raise Unmodelled("cannot use %r as a symbolic integer" % (type(x),))


def mkint(t, width=None):
    t = z3.simplify(t)
    if z3.is_int_value(t):
        return t.as_long()
    return SymInt(t, width)


def _intlike(x):
    return isinstance(x, (int, SymInt, SymBool))


class SymInt(Sym):
    """mathematical integer (python int is unbounded).  `width` (optional): the value is known to lie in
    [0, 2**width) -- needed for bit operations, which decompose the value into fresh boolean bits."""
    __slots__ = ("term", "width", "_bits", "_bytes")

    def __init__(self, term, width=None, bits=None, bytes_=None):
        self.term = term
        self.width = width
        self._bits = bits
        self._bytes = bytes_      # big-endian byte terms this value was assembled from (canonical bit source)

    def _short(self):
        s = str(self.term)
        return s if len(s) < 80 else s[:77] + "..."

    def __bool__(self):
        return E.current().branch(self.term != 0)

    __hash__ = Sym.__hash__

    # comparisons
    def _cmp(self, other, f):
        if isinstance(other, SymReal):
            return NotImplemented
        if not _intlike(other):
            return NotImplemented
        return mkbool(f(self.term, iterm(other)))

    def __eq__(self, o):
        if isinstance(o, float) and o == int(o):
            o = int(o)
        if not _intlike(o):
            return False
        return mkbool(self.term == iterm(o))

    def __ne__(self, o):
        if not _intlike(o):
            return True
        return mkbool(self.term != iterm(o))

    def __lt__(self, o):
        return self._cmp(o, lambda a, b: a < b)

    def __le__(self, o):
        return self._cmp(o, lambda a, b: a <= b)

    def __gt__(self, o):
        return self._cmp(o, lambda a, b: a > b)

    def __ge__(self, o):
        return self._cmp(o, lambda a, b: a >= b)

    # arithmetic
    def __add__(self, o):
        if isinstance(o, SymReal):
            return NotImplemented
        if not _intlike(o):
            return NotImplemented
        w = None
        if self.width is not None:
            if isinstance(o, SymInt) and o.width is not None:
                w = max(self.width, o.width) + 1
            elif isinstance(o, int) and not isinstance(o, bool) and o >= 0:
                w = max(self.width, o.bit_length()) + 1
            elif isinstance(o, (bool, SymBool)):
                w = self.width + 1
        return mkint(self.term + iterm(o), w)

    __radd__ = __add__

    def __sub__(self, o):
        if not _intlike(o):
            return NotImplemented
        return mkint(self.term - iterm(o))

    def __rsub__(self, o):
        if not _intlike(o):
            return NotImplemented
        return mkint(iterm(o) - self.term)

    def __mul__(self, o):
        if not _intlike(o):
            return NotImplemented
        return mkint(self.term * iterm(o))

    __rmul__ = __mul__

    def __neg__(self):
        return mkint(-self.term)

    def __pos__(self):
        return self

    def __abs__(self):
        return mkint(z3.If(self.term >= 0, self.term, -self.term))

    def __floordiv__(self, o):
        if isinstance(o, int) and not isinstance(o, bool) and o > 0:
            return mkint(self.term / z3.IntVal(o))      # z3 int div == floor for positive divisor
        raise Unmodelled("floordiv by non-constant or non-positive divisor")

    def __mod__(self, o):
        if isinstance(o, int) and not isinstance(o, bool) and o > 0:
            return mkint(self.term % z3.IntVal(o), width=(o - 1).bit_length())
        raise Unmodelled("mod by non-constant or non-positive divisor")

    def __int__(self):
        raise Unmodelled("int() of symbolic int reached native code")

    def __float__(self):
        raise Unmodelled("float() of symbolic int reached native code")

    # bit operations through bit decomposition
    def bits(self):
        if self._bits is None and self._bytes is not None:
            eng = E.current()
            reg = eng.memo.setdefault("byte_bits", {})
            out = []
            for t in reversed(self._bytes):
                if z3.is_int_value(t):
                    out.extend(z3.BoolVal(bool((t.as_long() >> i) & 1)) for i in range(8))
                    continue
                bb = reg.get(t.get_id())
                if bb is None:
                    bb = [eng.fresh("bit", "bool") for _ in range(8)]
                    eng.add(t == z3.Sum([z3.If(b, z3.IntVal(1 << i), z3.IntVal(0)) for i, b in enumerate(bb)]))
                    reg[t.get_id()] = bb
                    eng.memo.setdefault("keepalive", []).append(t)
                out.extend(bb)
            self._bits = out
        if self._bits is None:
            if self.width is None:
                raise Unmodelled("bit operation on a symbolic int of unknown width: %s" % self._short())
            eng = E.current()
            cache = eng.memo.setdefault("term_bits", {})
            hit = cache.get(self.term.get_id())
            if hit is not None and len(hit[0]) == self.width:
                self._bits = hit[0]
                return self._bits
            bs = [eng.fresh("bit", "bool") for _ in range(self.width)]
            cache[self.term.get_id()] = (bs, self.term)
            eng.add(self.term == z3.Sum([z3.If(b, z3.IntVal(1 << i), z3.IntVal(0)) for i, b in enumerate(bs)])
                    if bs else self.term == 0)
            self._bits = bs
        return self._bits

    @staticmethod
    def from_bits(bs):
        bs = [z3.simplify(b) for b in bs]
        while bs and z3.is_false(bs[-1]):
            bs.pop()
        if not bs:
            return 0
        t = z3.Sum([z3.If(b, z3.IntVal(1 << i), z3.IntVal(0)) for i, b in enumerate(bs)]) if len(bs) > 1 \
            else z3.If(bs[0], z3.IntVal(1), z3.IntVal(0))
        t = z3.simplify(t)
        if z3.is_int_value(t):
            return t.as_long()
        return SymInt(t, len(bs), bs)

    def __and__(self, o):
        if isinstance(o, bool):
            o = int(o)
        if isinstance(o, int):
            bs = self.bits()
            if o >= 0:
                return SymInt.from_bits([bs[i] if (o >> i) & 1 else z3.BoolVal(False) for i in range(min(len(bs), o.bit_length()))])
            return SymInt.from_bits([bs[i] if (o >> i) & 1 else z3.BoolVal(False) for i in range(len(bs))])
        if isinstance(o, SymInt):
            a, b = self.bits(), o.bits()
            return SymInt.from_bits([z3.And(x, y) for x, y in zip(a, b)])
        return NotImplemented

    __rand__ = __and__

    def __or__(self, o):
        if isinstance(o, bool):
            o = int(o)
        if isinstance(o, int):
            if o < 0:
                raise Unmodelled("| with negative constant")
            bs = self.bits()
            n = max(len(bs), o.bit_length())
            out = []
            for i in range(n):
                if (o >> i) & 1:
                    out.append(z3.BoolVal(True))
                else:
                    out.append(bs[i] if i < len(bs) else z3.BoolVal(False))
            return SymInt.from_bits(out)
        if isinstance(o, SymInt):
            a, b = self.bits(), o.bits()
            n = max(len(a), len(b))
            f = z3.BoolVal(False)
            return SymInt.from_bits([z3.Or(a[i] if i < len(a) else f, b[i] if i < len(b) else f) for i in range(n)])
        return NotImplemented

    __ror__ = __or__

    def __xor__(self, o):
        if isinstance(o, int) and o >= 0:
            bs = self.bits()
            n = max(len(bs), o.bit_length())
            f = z3.BoolVal(False)
            return SymInt.from_bits([z3.Xor(bs[i] if i < len(bs) else f, z3.BoolVal(bool((o >> i) & 1))) for i in range(n)])
        raise Unmodelled("xor")

    __rxor__ = __xor__

    def __lshift__(self, o):
        if isinstance(o, int) and o >= 0:
            return mkint(self.term * (1 << o), None if self.width is None else self.width + o)
        raise Unmodelled("<< by symbolic amount")

    def __rshift__(self, o):
        if isinstance(o, int) and o >= 0:
            return self // (1 << o)
        raise Unmodelled(">> by symbolic amount")

    def __invert__(self):
        return mkint(-self.term - 1)


# ------------------------------------------------------------------------------------------------
# reals (clock values only)

def rterm(x):
    if isinstance(x, SymReal):
        return x.term
    if isinstance(x, SymInt):
        return z3.ToReal(x.term)
    if isinstance(x, bool):
        return z3.RealVal(int(x))
    if isinstance(x, (int, float)):
        return z3.RealVal(repr(x) if isinstance(x, float) else x)
    raise Unmodelled("cannot use %r as a symbolic real" % (type(x),))


def _reallike(x):
    return isinstance(x, (int, float, SymReal, SymInt))


class SymReal(Sym):
    __slots__ = ("term",)

    def __init__(self, term):
        self.term = term

    def _short(self):
        return str(self.term)[:80]

    __hash__ = Sym.__hash__

    def __bool__(self):
        return E.current().branch(self.term != 0)

    def _cmp(self, o, f):
        if not _reallike(o):
            return NotImplemented
        return mkbool(f(self.term, rterm(o)))

    def __eq__(self, o):
        if not _reallike(o):
            return False
        return mkbool(self.term == rterm(o))

    def __ne__(self, o):
        if not _reallike(o):
            return True
        return mkbool(self.term != rterm(o))

    def __lt__(self, o):
        return self._cmp(o, lambda a, b: a < b)

    def __le__(self, o):
        return self._cmp(o, lambda a, b: a <= b)

    def __gt__(self, o):
        return self._cmp(o, lambda a, b: a > b)

    def __ge__(self, o):
        return self._cmp(o, lambda a, b: a >= b)

    def __add__(self, o):
        if not _reallike(o):
            return NotImplemented
        return SymReal(z3.simplify(self.term + rterm(o)))

    __radd__ = __add__

    def __sub__(self, o):
        if not _reallike(o):
            return NotImplemented
        return SymReal(z3.simplify(self.term - rterm(o)))

    def __rsub__(self, o):
        if not _reallike(o):
            return NotImplemented
        return SymReal(z3.simplify(rterm(o) - self.term))

    def __mul__(self, o):
        if isinstance(o, (int, float)):
            return SymReal(z3.simplify(self.term * rterm(o)))
        raise Unmodelled("real * symbolic")

    __rmul__ = __mul__

    def __neg__(self):
        return SymReal(-self.term)

    def __float__(self):
        raise Unmodelled("float() of symbolic real reached native code")


# ------------------------------------------------------------------------------------------------
# generic equality (structural over python containers; no forking)

def sym_eq(a, b):
    """a == b as bool or SymBool, structural over tuples/lists/dicts that contain symbolic leaves."""
    from .strings import StrVec
    from .sbytes import SymBytes
    if isinstance(a, Sym) or isinstance(b, Sym):
        if isinstance(a, StrVec) or isinstance(b, StrVec):
            if isinstance(a, (str, StrVec)) and isinstance(b, (str, StrVec)):
                return StrVec.lift(a).eq(StrVec.lift(b))
            return False
        if isinstance(a, SymBytes) or isinstance(b, SymBytes):
            if isinstance(a, (bytes, bytearray, memoryview, SymBytes)) and isinstance(b, (bytes, bytearray, memoryview, SymBytes)):
                return SymBytes.lift(a).eq(SymBytes.lift(b))
            return False
        r = a.__eq__(b) if isinstance(a, Sym) else b.__eq__(a)
        if r is NotImplemented:
            return False
        return r
    ta, tb = type(a), type(b)
    if ta in (tuple, list) and tb is ta:
        if len(a) != len(b):
            return False
        return And(*[sym_eq(x, y) for x, y in zip(a, b)])
    if ta is dict and tb is dict and contains_sym(a) or contains_sym(b) and ta is dict and tb is dict:
        if set(a.keys()) != set(b.keys()):
            return False
        return And(*[sym_eq(a[k], b[k]) for k in a])
    r = (a == b)
    return r


def contains_sym(x, depth=3):
    if isinstance(x, Sym):
        return True
    if depth <= 0:
        return False
    t = type(x)
    if t in (tuple, list, set, frozenset):
        return any(contains_sym(y, depth - 1) for y in x)
    if t is dict:
        return any(contains_sym(k, depth - 1) or contains_sym(v, depth - 1) for k, v in x.items())
    return False
