"""AST meta-interpreter: executes the *real* source of Pyro5 functions (and of the harness) statement by
statement on real Python objects, with symbolic leaves.  Everything outside the interpreted modules is
called natively iff its arguments are concrete, otherwise dispatched to a model or refused (Unmodelled)."""
import ast
import sys
import types
import inspect
import hashlib
import builtins
import operator
import importlib

from . import engine as E
from .engine import EngineSignal, Unmodelled
from .values import Sym, SymBool, SymInt, SymReal, sym_eq, contains_sym, And, Or, Not, is_sym
from .strings import StrVec
from .sbytes import SymBytes

CO_GENERATOR = 0x20


class _Return(BaseException):
    def __init__(self, value):
        self.value = value


class _Break(BaseException):
    pass


class _Continue(BaseException):
    pass


_CONTROL = (_Return, _Break, _Continue)


class Env:
    __slots__ = ("locals", "parent", "globals", "gdecl", "ndecl", "cells", "cls", "fn", "first_arg", "qual", "genbuf")

    def __init__(self, globals_, parent=None, cells=None, cls=None, fn=None, qual=None):
        self.locals = {}
        self.parent = parent
        self.globals = globals_
        self.gdecl = None
        self.ndecl = None
        self.cells = cells
        self.cls = cls            # lexically enclosing class name (for __private mangling)
        self.fn = fn
        self.first_arg = None
        self.qual = qual
        self.genbuf = None        # list of yielded values while a generator body is run eagerly


class EagerGenerator:
    """A generator function that receives symbolic arguments is run EAGERLY by the interpreter: its body is executed to the
    end at the first next(), the yielded values are buffered and then handed out one by one.  Sound for generators that do
    not depend on what the consumer does between two items and that are consumed (send()/throw() are not supported; an
    exception that ends the body is raised after the items yielded before it; an endless generator runs into the loop
    unwinding limit / the non-termination detector)."""

    def __init__(self, thunk, name):
        self._thunk = thunk
        self._it = None
        self._exc = None
        self.__qualname__ = name

    def __iter__(self):
        return self

    def __next__(self):
        if self._it is None:
            items, self._exc = self._thunk()
            self._it = iter(items)
        try:
            return next(self._it)
        except StopIteration:
            # an exception that ended the body is raised where it belongs: after the items yielded before it
            exc, self._exc = self._exc, None
            if exc is not None:
                raise exc
            raise

    def send(self, value):
        if value is not None:
            raise Unmodelled("send() into an eagerly run generator")
        return self.__next__()

    def close(self):
        self._it = iter(())
        self._exc = None


class InterpFunction:
    """a function object created by interpreted code (nested def / lambda)."""

    def __init__(self, interp, node, env, name, defaults, kwdefaults, module):
        self._interp = interp
        self._node = node
        self._env = env
        self.__name__ = name
        self.__qualname__ = (env.qual + ".<locals>." if env.qual else "") + name
        self.__module__ = module
        self._defaults = defaults
        self._kwdefaults = kwdefaults
        self.__dict__.setdefault("__doc__", ast.get_docstring(node) if isinstance(node, ast.FunctionDef) else None)

    def __call__(self, *args, **kwargs):
        return self._interp.call_interp_function(self, args, kwargs)

    def __get__(self, obj, objtype=None):
        if obj is None:
            return self
        return types.MethodType(self, obj)


class ModuleIndex:
    """all function-like nodes of a module source, by first line"""

    def __init__(self, module):
        self.module = module
        src = inspect.getsource(module)
        self.tree = ast.parse(src)
        self.by_line = {}
        self._walk(self.tree, None)

    def _walk(self, node, cls):
        for child in ast.iter_child_nodes(node):
            if isinstance(child, ast.ClassDef):
                self._walk(child, child.name)
            elif isinstance(child, (ast.FunctionDef, ast.AsyncFunctionDef)):
                first = min([child.lineno] + [d.lineno for d in child.decorator_list])
                self.by_line.setdefault(first, []).append((child, cls))
                self.by_line.setdefault(child.lineno, []).append((child, cls))
                self._walk(child, cls)
            elif isinstance(child, ast.Lambda):
                self.by_line.setdefault(child.lineno, []).append((child, cls))
                self._walk(child, cls)
            else:
                self._walk(child, cls)


def _mangle(name, cls):
    if cls and name.startswith("__") and not name.endswith("__"):
        return "_" + cls.lstrip("_") + name
    return name


class Interp:
    def __init__(self, prefixes=("Pyro5",), extra_modules=()):
        self.prefixes = tuple(prefixes)
        self.extra_modules = set(extra_modules)
        self.mod_index = {}
        self.fn_cache = {}
        self.models = {}           # callable -> model(interp, args, kwargs)   (used when an arg is symbolic)
        self.always = {}           # callable -> model  (always used)
        self.method_models = {}    # (type, name) -> model(interp, self, args, kwargs)
        self.encoded = {}          # qualname -> sha256 of source
        self.exc_stack = []
        self.call_hook = None      # f(callable, args, kwargs)
        self.store_hook = None     # f(obj, attr, value)
        self.depth = 0
        self.max_depth = 400
        self.loop_limit = 100000
        self.native_only = set()   # function objects never interpreted
        self.trace_lines = None    # optional list collecting (file, line)
        self.stmt_hook = None      # f(statement node, env) called before every interpreted statement
        # generator functions that may run natively although their arguments hold symbolic leaves: they only
        # pass the values through (wrappers still fork on bool() and refuse any silent concretisation)
        self.native_generators = {"BatchProxy.__resultsgenerator"}
        self.symdict_functions = set()   # qualnames whose empty dict displays become SymDict (symbolic keys)
        from . import models
        models.install(self)

    # ------------------------------------------------------------------------------------------
    def is_interp_module(self, modname):
        if not modname:
            return False
        if modname in self.extra_modules:
            return True
        for p in self.prefixes:
            if modname == p or modname.startswith(p + "."):
                return True
        return False

    def interpretable(self, fn):
        if isinstance(fn, InterpFunction):
            return True
        if not isinstance(fn, types.FunctionType):
            return False
        if fn in self.native_only:
            return False
        return self.is_interp_module(getattr(fn, "__module__", None))

    def is_interp_class(self, tp):
        for k in tp.__mro__:
            if self.is_interp_module(getattr(k, "__module__", None)):
                return True
        return False

    def fn_ast(self, fn):
        code = fn.__code__
        key = code
        hit = self.fn_cache.get(key)
        if hit is not None:
            return hit
        module = sys.modules.get(fn.__module__)
        if module is None:
            raise Unmodelled("no module for %r" % fn)
        idx = self.mod_index.get(module.__name__)
        if idx is None:
            idx = self.mod_index[module.__name__] = ModuleIndex(module)
        cands = idx.by_line.get(code.co_firstlineno, [])
        sel = None
        for node, cls in cands:
            if isinstance(node, ast.Lambda):
                if code.co_name == "<lambda>":
                    sel = (node, cls)
                    break
            elif node.name == code.co_name:
                sel = (node, cls)
                break
        if sel is None:
            raise Unmodelled("cannot find source of %s.%s (line %d)" % (fn.__module__, fn.__qualname__, code.co_firstlineno))
        self.fn_cache[key] = sel
        try:
            seg = ast.get_source_segment(inspect.getsource(module), sel[0]) or ""
        except Exception:
            seg = ""
        self.encoded["%s.%s" % (fn.__module__, fn.__qualname__)] = hashlib.sha256(seg.encode()).hexdigest()[:16]
        return sel

    # ------------------------------------------------------------------------------------------
    # calling
    def call(self, f, *args, **kwargs):
        return self.call_value(f, args, kwargs)

    def call_value(self, f, args, kwargs):
        if self.call_hook is not None:
            self.call_hook(f, args, kwargs)
        # always-models first (environment stubs)
        if self.always:
            key = f
            if isinstance(f, types.MethodType):
                key = f.__func__
            try:
                m = self.always.get(key)
            except TypeError:
                m = None
            if m is not None:
                if isinstance(f, types.MethodType):
                    return m(self, (f.__self__,) + tuple(args), kwargs)
                return m(self, args, kwargs)
        if isinstance(f, InterpFunction):
            return self.call_interp_function(f, args, kwargs)
        if isinstance(f, types.MethodType):
            fn = f.__func__
            if self.interpretable(fn):
                return self.call_value(fn, (f.__self__,) + tuple(args), kwargs)
            if isinstance(fn, types.MethodType) or isinstance(fn, InterpFunction):
                return self.call_value(fn, (f.__self__,) + tuple(args), kwargs)
        if isinstance(f, types.FunctionType) and self.interpretable(f):
            if f.__code__.co_flags & CO_GENERATOR:
                if (contains_sym(args) or contains_sym(kwargs)) and f.__qualname__ not in self.native_generators:
                    from . import models as _models
                    _models.USED.add("generator functions with symbolic arguments are run eagerly (items buffered)")
                    return EagerGenerator(lambda: self.run_generator_eagerly(f, args, kwargs), f.__qualname__)
                return f(*args, **kwargs)
            return self.call_real_function(f, args, kwargs)
        if isinstance(f, type):
            return self.instantiate(f, args, kwargs)
        if isinstance(f, Sym):
            raise TypeError("symbolic value is not callable")
        # calling a callable instance of an interpreted class -> interpret __call__
        tp = type(f)
        if not isinstance(f, (types.BuiltinFunctionType, types.FunctionType, types.MethodType)) and self.is_interp_class(tp):
            c = self._find_dunder(tp, "__call__")
            if c is not None and self.interpretable(c):
                return self.call_value(c, (f,) + tuple(args), kwargs)
        # native callable
        fmod = getattr(f, "__module__", None) or getattr(getattr(f, "__func__", None), "__module__", None)
        if fmod is not None and (fmod == "pysym" or fmod.startswith("pysym.")):
            return f(*args, **kwargs)       # engine/API functions handle symbolic values themselves
        symbolic = any(contains_sym(a) for a in args) or (kwargs and any(contains_sym(v) for v in kwargs.values()))
        recv = getattr(f, "__self__", None)
        if isinstance(recv, Sym) and not isinstance(recv, type):
            return f(*args, **kwargs)       # method of a symbolic wrapper: implemented in pysym
        try:
            m = self.models.get(f)
        except TypeError:
            m = None
        if m is not None and (symbolic or getattr(m, "_always", False)):
            return m(self, args, kwargs)
        if symbolic:
            # bound builtin method on a concrete receiver with a symbolic argument
            name = getattr(f, "__name__", None)
            if recv is not None and not isinstance(recv, types.ModuleType):
                mm = self._find_method_model(type(recv), name)
                if mm is not None:
                    return mm(self, recv, args, kwargs)
            if isinstance(f, (types.MethodDescriptorType, types.WrapperDescriptorType)) and args:
                mm = self._find_method_model(f.__objclass__, name)
                if mm is not None:
                    return mm(self, args[0], args[1:], kwargs)
            if getattr(f, "_pysym_native", False):
                return f(*args, **kwargs)
            if type(f).__name__ in ("method-wrapper", "wrapper_descriptor") or f is object.__new__ or not callable(f):
                # slot wrappers of object (and non-callables) only look at arity and types: they store the value,
                # return NotImplemented or raise TypeError without inspecting a symbolic argument
                return f(*args, **kwargs)
            cargs, ckw = self.sample_arguments("native callable %s" % (getattr(f, "__qualname__", f),), args, kwargs)
            return f(*cargs, **ckw)
        return f(*args, **kwargs)

    SAMPLES = 6

    def sample_arguments(self, what, args, kwargs):
        """arguments of a call into native code that has no model: fixed to solver-chosen sample values (Engine.sample)"""
        from .strings import StrVec
        from .sbytes import SymBytes
        from .values import SymInt, SymBool, bterm
        import z3
        leaves = []
        index = {}
        mutable = set()

        def leaf(v):
            if id(v) in index:
                return index[id(v)]
            if isinstance(v, StrVec):
                ent = (v.eval, lambda c, v=v: bterm(v.eq(c)))
            elif isinstance(v, SymInt):
                ent = (lambda m, v=v: int(E.z3val(m, v.term)), lambda c, v=v: v.term == c)
            elif isinstance(v, SymBool):
                ent = (lambda m, v=v: bool(E.z3val(m, v.term)), lambda c, v=v: v.term == c)
            elif isinstance(v, SymBytes) and v.is_plain():
                def mk(c, v=v):
                    ts = v.terms()
                    return z3.And(*[t == b for t, b in zip(ts, c)]) if ts else z3.BoolVal(True)
                ent = (lambda m, v=v: bytes(v.eval(m)), mk)
                if v.kind == "bytearray":
                    mutable.add(len(leaves))
            else:
                raise Unmodelled("symbolic %s reaches un-modelled %s" % (type(v).__name__, what))
            index[id(v)] = len(leaves)
            leaves.append(ent)
            return index[id(v)]

        def walk(x, depth=0):
            if isinstance(x, Sym):
                return ("leaf", leaf(x))
            if depth < 4 and isinstance(x, (list, tuple)) and contains_sym(x):
                return ("seq", type(x), [walk(y, depth + 1) for y in x])
            if depth < 4 and isinstance(x, dict) and contains_sym(x):
                return ("dict", [(walk(k, depth + 1), walk(y, depth + 1)) for k, y in x.items()])
            if contains_sym(x):
                raise Unmodelled("symbolic value nested in a %s reaches un-modelled %s" % (type(x).__name__, what))
            return ("const", x)

        plan = ([walk(a) for a in args], [(k, walk(v)) for k, v in (kwargs or {}).items()])
        vals = E.current().sample(leaves, self.SAMPLES, what)

        def build(t):
            if t[0] == "leaf":
                return bytearray(vals[t[1]]) if t[1] in mutable else vals[t[1]]
            if t[0] == "const":
                return t[1]
            if t[0] == "seq":
                return t[1](build(y) for y in t[2])
            return {build(k): build(y) for k, y in t[1]}
        return [build(t) for t in plan[0]], {k: build(t) for k, t in plan[1]}

    def _find_method_model(self, tp, name):
        for k in tp.__mro__:
            m = self.method_models.get((k, name))
            if m is not None:
                return m
        return None

    def _find_dunder(self, tp, name):
        for k in tp.__mro__:
            if name in k.__dict__:
                d = k.__dict__[name]
                if isinstance(d, (staticmethod, classmethod)):
                    d = d.__func__
                return d
        return None

    def instantiate(self, cls, args, kwargs):
        m = None
        try:
            m = self.always.get(cls)
        except TypeError:
            pass
        if m is not None:
            return m(self, args, kwargs)
        symbolic = any(contains_sym(a) for a in args) or (kwargs and any(contains_sym(v) for v in kwargs.values()))
        if not self.is_interp_class(cls):
            try:
                m = self.models.get(cls)
            except TypeError:
                m = None
            if m is not None and (symbolic or getattr(m, "_always", False)):
                return m(self, args, kwargs)
            if symbolic and not (isinstance(cls, type) and issubclass(cls, BaseException)):
                if cls in (list, tuple, dict) and not any(isinstance(a, Sym) for a in args):
                    return cls(*args, **kwargs)
                cargs, ckw = self.sample_arguments("constructor of native class %s" % cls.__qualname__, args, kwargs)
                return cls(*cargs, **ckw)
            return cls(*args, **kwargs)
        if type(cls) is not type and type(cls).__call__ is not type.__call__:
            return cls(*args, **kwargs)
        new = cls.__new__
        if new is object.__new__:
            obj = object.__new__(cls)
        elif isinstance(new, types.FunctionType) and self.interpretable(new):
            obj = self.call_real_function(new, (cls,) + tuple(args), kwargs)
        else:
            try:
                obj = new(cls, *args, **kwargs)
            except TypeError:
                obj = new(cls)
        if isinstance(obj, cls):
            init = self._find_dunder(type(obj), "__init__")
            if init is not None and self.interpretable(init):
                self.call_value(init, (obj,) + tuple(args), kwargs)
            elif init is not None and init is not object.__init__:
                if symbolic and not isinstance(obj, BaseException):
                    raise Unmodelled("symbolic argument reaches native __init__ of %s" % cls.__qualname__)
                init(obj, *args, **kwargs)
        return obj

    def bind_args(self, node_args, args, kwargs, defaults, kwdefaults, fname):
        env = {}
        pos = list(node_args.posonlyargs) + list(node_args.args)
        npos = len(pos)
        args = tuple(args)
        if len(args) > npos and node_args.vararg is None:
            raise TypeError("%s() takes %d positional arguments but %d were given" % (fname, npos, len(args)))
        for i, a in enumerate(pos):
            if i < len(args):
                env[a.arg] = args[i]
        if node_args.vararg is not None:
            env[node_args.vararg.arg] = tuple(args[npos:])
        kw = dict(kwargs) if kwargs else {}
        posonly = {a.arg for a in node_args.posonlyargs}
        for i, a in enumerate(pos):
            if a.arg in kw and a.arg not in posonly:
                if a.arg in env:
                    raise TypeError("%s() got multiple values for argument '%s'" % (fname, a.arg))
                env[a.arg] = kw.pop(a.arg)
        defaults = defaults or ()
        nd = len(defaults)
        for i, a in enumerate(pos):
            if a.arg not in env:
                di = i - (npos - nd)
                if di >= 0:
                    env[a.arg] = defaults[di]
                else:
                    raise TypeError("%s() missing required positional argument: '%s'" % (fname, a.arg))
        for a in node_args.kwonlyargs:
            if a.arg in kw:
                env[a.arg] = kw.pop(a.arg)
            elif kwdefaults and a.arg in kwdefaults:
                env[a.arg] = kwdefaults[a.arg]
            else:
                raise TypeError("%s() missing required keyword-only argument: '%s'" % (fname, a.arg))
        if node_args.kwarg is not None:
            env[node_args.kwarg.arg] = kw
        elif kw:
            raise TypeError("%s() got an unexpected keyword argument '%s'" % (fname, next(iter(kw))))
        return env

    def call_real_function(self, fn, args, kwargs):
        node, cls = self.fn_ast(fn)
        cells = None
        if fn.__closure__:
            cells = dict(zip(fn.__code__.co_freevars, fn.__closure__))
        env = Env(fn.__globals__, None, cells, cls, fn, fn.__qualname__)
        env.locals = self.bind_args(node.args, args, kwargs, fn.__defaults__, fn.__kwdefaults__, fn.__name__)
        if args:
            env.first_arg = args[0]
        return self.run_body(node, env)

    def run_generator_eagerly(self, fn, args, kwargs):
        node, cls = self.fn_ast(fn)
        cells = None
        if fn.__closure__:
            cells = dict(zip(fn.__code__.co_freevars, fn.__closure__))
        env = Env(fn.__globals__, None, cells, cls, fn, fn.__qualname__)
        env.locals = self.bind_args(node.args, args, kwargs, fn.__defaults__, fn.__kwdefaults__, fn.__name__)
        if args:
            env.first_arg = args[0]
        env.genbuf = []
        try:
            self.run_body(node, env)
        except Exception as x:
            return env.genbuf, x
        return env.genbuf, None

    def call_interp_function(self, f, args, kwargs):
        node = f._node
        env = Env(f._env.globals, f._env, None, f._env.cls, f, f.__qualname__)
        env.locals = self.bind_args(node.args, args, kwargs, f._defaults, f._kwdefaults, f.__name__)
        if args:
            env.first_arg = args[0]
        return self.run_body(node, env)

    def run_body(self, node, env):
        self.depth += 1
        if self.depth > self.max_depth:
            self.depth -= 1
            raise RecursionError("pysym interpreter depth")
        try:
            if isinstance(node, ast.Lambda):
                return self.eval(node.body, env)
            for st in node.body:
                if isinstance(st, (ast.Global, ast.Nonlocal)):
                    self.exec_stmt(st, env)
            try:
                self.exec_block(node.body, env)
            except _Return as r:
                return r.value
            return None
        finally:
            self.depth -= 1

    # ------------------------------------------------------------------------------------------
    # names
    def lookup(self, name, env):
        e = env
        if e.gdecl and name in e.gdecl:
            return self._global(name, env)
        while e is not None:
            if name in e.locals:
                return e.locals[name]
            if e.cells and name in e.cells:
                try:
                    return e.cells[name].cell_contents
                except ValueError:
                    raise NameError("free variable '%s' referenced before assignment" % name)
            e = e.parent
        return self._global(name, env)

    def _global(self, name, env):
        g = env.globals
        if name in g:
            return g[name]
        b = g.get("__builtins__", builtins)
        if isinstance(b, dict):
            if name in b:
                return b[name]
        elif hasattr(b, name):
            return getattr(b, name)
        if hasattr(builtins, name):
            return getattr(builtins, name)
        raise NameError("name '%s' is not defined" % name)

    def store_name(self, name, value, env):
        if env.gdecl and name in env.gdecl:
            env.globals[name] = value
            return
        if env.ndecl and name in env.ndecl:
            e = env.parent
            while e is not None:
                if name in e.locals:
                    e.locals[name] = value
                    return
                if e.cells and name in e.cells:
                    e.cells[name].cell_contents = value
                    return
                e = e.parent
            if env.cells and name in env.cells:
                env.cells[name].cell_contents = value
                return
            raise NameError("no binding for nonlocal '%s'" % name)
        env.locals[name] = value

    # ------------------------------------------------------------------------------------------
    # statements
    def exec_block(self, stmts, env):
        for st in stmts:
            self.exec_stmt(st, env)

    def exec_stmt(self, node, env):
        if self.trace_lines is not None:
            self.trace_lines.append(node.lineno)
        if self.stmt_hook is not None:
            self.stmt_hook(node, env)
        m = getattr(self, "st_" + type(node).__name__, None)
        if m is None:
            raise Unmodelled("statement %s not supported by the interpreter" % type(node).__name__)
        return m(node, env)

    def st_Expr(self, node, env):
        self.eval(node.value, env)

    def st_Pass(self, node, env):
        pass

    def st_Global(self, node, env):
        if env.gdecl is None:
            env.gdecl = set()
        env.gdecl.update(node.names)

    def st_Nonlocal(self, node, env):
        if env.ndecl is None:
            env.ndecl = set()
        env.ndecl.update(node.names)

    def st_Return(self, node, env):
        raise _Return(self.eval(node.value, env) if node.value is not None else None)

    def st_Break(self, node, env):
        raise _Break()

    def st_Continue(self, node, env):
        raise _Continue()

    def st_Assign(self, node, env):
        v = self.eval(node.value, env)
        for t in node.targets:
            self.assign(t, v, env)

    def st_AnnAssign(self, node, env):
        if node.value is not None:
            self.assign(node.target, self.eval(node.value, env), env)

    def st_AugAssign(self, node, env):
        t = node.target
        if isinstance(t, ast.Name):
            cur = self.lookup(_mangle(t.id, env.cls), env)
            new = self.binop(type(node.op), cur, self.eval(node.value, env), inplace=True)
            self.store_name(_mangle(t.id, env.cls), new, env)
        elif isinstance(t, ast.Attribute):
            obj = self.eval(t.value, env)
            attr = _mangle(t.attr, env.cls)
            cur = self.getattr_(obj, attr)
            new = self.binop(type(node.op), cur, self.eval(node.value, env), inplace=True)
            self.setattr_(obj, attr, new)
        elif isinstance(t, ast.Subscript):
            obj = self.eval(t.value, env)
            key = self.eval_slice(t.slice, env)
            cur = self.getitem(obj, key)
            new = self.binop(type(node.op), cur, self.eval(node.value, env), inplace=True)
            self.setitem(obj, key, new)
        else:
            raise Unmodelled("augassign target")

    def assign(self, target, v, env):
        if isinstance(target, ast.Name):
            self.store_name(_mangle(target.id, env.cls), v, env)
        elif isinstance(target, ast.Attribute):
            self.setattr_(self.eval(target.value, env), _mangle(target.attr, env.cls), v)
        elif isinstance(target, ast.Subscript):
            self.setitem(self.eval(target.value, env), self.eval_slice(target.slice, env), v)
        elif isinstance(target, (ast.Tuple, ast.List)):
            items = self.iterate_to_list(v)
            star = [i for i, e in enumerate(target.elts) if isinstance(e, ast.Starred)]
            if star:
                si = star[0]
                after = len(target.elts) - si - 1
                if len(items) < len(target.elts) - 1:
                    raise ValueError("not enough values to unpack")
                for e, x in zip(target.elts[:si], items[:si]):
                    self.assign(e, x, env)
                self.assign(target.elts[si].value, list(items[si:len(items) - after]), env)
                for e, x in zip(target.elts[si + 1:], items[len(items) - after:]):
                    self.assign(e, x, env)
            else:
                if len(items) != len(target.elts):
                    if len(items) > len(target.elts):
                        raise ValueError("too many values to unpack (expected %d)" % len(target.elts))
                    raise ValueError("not enough values to unpack (expected %d, got %d)" % (len(target.elts), len(items)))
                for e, x in zip(target.elts, items):
                    self.assign(e, x, env)
        else:
            raise Unmodelled("assignment target %s" % type(target).__name__)

    def st_Delete(self, node, env):
        for t in node.targets:
            if isinstance(t, ast.Name):
                name = _mangle(t.id, env.cls)
                if name in env.locals:
                    del env.locals[name]
                else:
                    raise NameError(name)
            elif isinstance(t, ast.Attribute):
                obj = self.eval(t.value, env)
                delattr(obj, _mangle(t.attr, env.cls))
            elif isinstance(t, ast.Subscript):
                self.delitem(self.eval(t.value, env), self.eval_slice(t.slice, env))
            else:
                raise Unmodelled("del target")

    def st_If(self, node, env):
        if self.truth(self.eval(node.test, env)):
            self.exec_block(node.body, env)
        else:
            self.exec_block(node.orelse, env)

    STAGNATION = 64      # consecutive iterations without any change of the local state and without a solver decision

    def _loop_fingerprint(self, env):
        eng = E.active()
        fp = [eng.informative if eng is not None else 0, len(env.genbuf) if env.genbuf is not None else -1]
        for k in sorted(env.locals):
            v = env.locals[k]
            fp.append((k, v if type(v) in (int, str, bytes, bool, float, type(None)) else id(v)))
        return fp

    def st_While(self, node, env):
        n = 0
        same = 0
        last = None
        while self.truth(self.eval(node.test, env)):
            n += 1
            if n % 8 == 0 and E.active() is not None and env.fn is not None and self.is_interp_module(getattr(env.fn, "__module__", None)) \
                    and str(getattr(env.fn, "__module__", "")).startswith("Pyro5"):
                fp = self._loop_fingerprint(env)
                if fp == last:
                    same += 1
                    if same >= self.STAGNATION:
                        raise E.NonTermination("the loop at %s line %d makes no progress" % (env.qual, node.lineno))
                else:
                    same = 0
                    last = fp
            if n > self.loop_limit:
                eng = E.active()
                if eng is not None:
                    eng.res.unwind_hits += 1
                raise E.BudgetExceeded("loop unwinding limit reached at line %d" % node.lineno)
            try:
                self.exec_block(node.body, env)
            except _Break:
                return
            except _Continue:
                continue
        self.exec_block(node.orelse, env)

    def st_For(self, node, env):
        it = self.get_iter(self.eval(node.iter, env))
        while True:
            try:
                x = self.next_(it)
            except StopIteration:
                break
            self.assign(node.target, x, env)
            try:
                self.exec_block(node.body, env)
            except _Break:
                return
            except _Continue:
                continue
        self.exec_block(node.orelse, env)

    def st_Assert(self, node, env):
        if not self.truth(self.eval(node.test, env)):
            if node.msg is not None:
                raise AssertionError(self.eval(node.msg, env))
            raise AssertionError()

    def st_Raise(self, node, env):
        if node.exc is None:
            if not self.exc_stack:
                raise RuntimeError("No active exception to reraise")
            raise self.exc_stack[-1]
        exc = self.eval(node.exc, env)
        if isinstance(exc, type):
            exc = self.instantiate(exc, (), {})
        if not isinstance(exc, BaseException):
            raise TypeError("exceptions must derive from BaseException")
        if node.cause is not None:
            cause = self.eval(node.cause, env)
            if isinstance(cause, type):
                cause = cause()
            exc.__cause__ = cause
            exc.__suppress_context__ = True
        elif self.exc_stack and exc.__context__ is None and exc is not self.exc_stack[-1]:
            exc.__context__ = self.exc_stack[-1]
        raise exc

    def st_Try(self, node, env):
        pending = None
        try:
            try:
                self.exec_block(node.body, env)
            except EngineSignal:
                raise
            except _CONTROL:
                raise
            except BaseException as exc:
                handled = False
                for h in node.handlers:
                    if h.type is None:
                        match = True
                    else:
                        t = self.eval(h.type, env)
                        match = isinstance(exc, t)
                    if match:
                        handled = True
                        if h.name:
                            env.locals[h.name] = exc
                        self.exc_stack.append(exc)
                        try:
                            self.exec_block(h.body, env)
                        finally:
                            self.exc_stack.pop()
                            if h.name:
                                env.locals.pop(h.name, None)
                        break
                if not handled:
                    raise
            else:
                self.exec_block(node.orelse, env)
        except EngineSignal:
            raise
        except BaseException as x:
            pending = x
        if node.finalbody:
            if pending is not None and not isinstance(pending, _CONTROL):
                self.exc_stack.append(pending)
                try:
                    self.exec_block(node.finalbody, env)
                finally:
                    self.exc_stack.pop()
            else:
                self.exec_block(node.finalbody, env)
        if pending is not None:
            raise pending

    def st_With(self, node, env):
        self._with(node, 0, env)

    def _with(self, node, i, env):
        if i == len(node.items):
            self.exec_block(node.body, env)
            return
        item = node.items[i]
        mgr = self.eval(item.context_expr, env)
        enter = self.getattr_(mgr, "__enter__")
        exit_ = self.getattr_(mgr, "__exit__")
        v = self.call_value(enter, (), {})
        if item.optional_vars is not None:
            self.assign(item.optional_vars, v, env)
        try:
            self._with(node, i + 1, env)
        except EngineSignal:
            raise
        except _CONTROL:
            self.call_value(exit_, (None, None, None), {})
            raise
        except BaseException as exc:
            self.exc_stack.append(exc)
            try:
                suppress = self.call_value(exit_, (type(exc), exc, exc.__traceback__), {})
            finally:
                self.exc_stack.pop()
            if not self.truth(suppress):
                raise
        else:
            self.call_value(exit_, (None, None, None), {})

    def st_FunctionDef(self, node, env):
        f = self.make_function(node, env, node.name)
        for d in reversed(node.decorator_list):
            f = self.call_value(self.eval(d, env), (f,), {})
        self.store_name(node.name, f, env)

    def make_function(self, node, env, name):
        a = node.args
        defaults = tuple(self.eval(d, env) for d in a.defaults)
        kwdefaults = {k.arg: self.eval(d, env) for k, d in zip(a.kwonlyargs, a.kw_defaults) if d is not None}
        for sub in ast.walk(node):
            if isinstance(sub, (ast.Yield, ast.YieldFrom)) and sub is not node:
                raise Unmodelled("nested generator function %s" % name)
        return InterpFunction(self, node, env, name, defaults, kwdefaults, env.globals.get("__name__"))

    def st_ClassDef(self, node, env):
        bases = tuple(self.eval(b, env) for b in node.bases)
        cenv = Env(env.globals, env, None, node.name, None, (env.qual + ".<locals>." if env.qual else "") + node.name)
        self.exec_block(node.body, cenv)
        ns = dict(cenv.locals)
        ns.setdefault("__module__", env.globals.get("__name__"))
        ns.setdefault("__qualname__", cenv.qual)
        cls = type(node.name, bases, ns)
        for d in reversed(node.decorator_list):
            cls = self.call_value(self.eval(d, env), (cls,), {})
        self.store_name(node.name, cls, env)

    def st_Import(self, node, env):
        for a in node.names:
            mod = importlib.import_module(a.name)
            if a.asname:
                self.store_name(a.asname, mod, env)
            else:
                top = a.name.split(".")[0]
                self.store_name(top, sys.modules[top], env)

    def st_ImportFrom(self, node, env):
        pkg = env.globals.get("__package__") or env.globals.get("__name__", "").rpartition(".")[0]
        name = ("." * node.level) + (node.module or "")
        mod = importlib.import_module(name, pkg) if node.level else importlib.import_module(node.module)
        for a in node.names:
            if a.name == "*":
                raise Unmodelled("import *")
            try:
                v = getattr(mod, a.name)
            except AttributeError:
                v = importlib.import_module(mod.__name__ + "." + a.name)
            self.store_name(a.asname or a.name, v, env)

    # ------------------------------------------------------------------------------------------
    # expressions
    def eval(self, node, env):
        m = getattr(self, "ex_" + type(node).__name__, None)
        if m is None:
            raise Unmodelled("expression %s not supported by the interpreter" % type(node).__name__)
        return m(node, env)

    def ex_Constant(self, node, env):
        return node.value

    def ex_Name(self, node, env):
        return self.lookup(_mangle(node.id, env.cls), env)

    def ex_Attribute(self, node, env):
        obj = self.eval(node.value, env)
        return self.getattr_(obj, _mangle(node.attr, env.cls))

    def ex_Tuple(self, node, env):
        return tuple(self._elts(node.elts, env))

    def ex_List(self, node, env):
        return list(self._elts(node.elts, env))

    def ex_Set(self, node, env):
        items = self._elts(node.elts, env)
        if contains_sym(items):
            from .containers import SymSet
            return SymSet(items)
        return set(items)

    def _elts(self, elts, env):
        out = []
        for e in elts:
            if isinstance(e, ast.Starred):
                out.extend(self.iterate_to_list(self.eval(e.value, env)))
            else:
                out.append(self.eval(e, env))
        return out

    def ex_Dict(self, node, env):
        if not node.keys and self.symdict_functions and (env.qual in self.symdict_functions or
                                                         (env.qual and env.qual.split(".")[0] + ".*" in self.symdict_functions)):
            from .containers import SymDict
            return SymDict()
        d = {}
        for k, v in zip(node.keys, node.values):
            if k is None:
                d.update(self.eval(v, env))
            else:
                kk = self.eval(k, env)
                if isinstance(kk, Sym):
                    raise Unmodelled("dict literal with symbolic key")
                d[kk] = self.eval(v, env)
        return d

    def ex_BoolOp(self, node, env):
        if isinstance(node.op, ast.And):
            v = True
            for e in node.values:
                v = self.eval(e, env)
                if not self.truth(v):
                    return v
            return v
        v = False
        for e in node.values:
            v = self.eval(e, env)
            if self.truth(v):
                return v
        return v

    def ex_UnaryOp(self, node, env):
        v = self.eval(node.operand, env)
        if isinstance(node.op, ast.Not):
            if isinstance(v, SymBool):
                return Not(v)
            return not self.truth(v)
        if isinstance(node.op, ast.USub):
            return -v
        if isinstance(node.op, ast.UAdd):
            return +v
        if isinstance(node.op, ast.Invert):
            return ~v
        raise Unmodelled("unary op")

    def ex_BinOp(self, node, env):
        return self.binop(type(node.op), self.eval(node.left, env), self.eval(node.right, env))

    _OPS = {ast.Add: operator.add, ast.Sub: operator.sub, ast.Mult: operator.mul, ast.Div: operator.truediv,
            ast.FloorDiv: operator.floordiv, ast.Mod: operator.mod, ast.Pow: operator.pow,
            ast.LShift: operator.lshift, ast.RShift: operator.rshift, ast.BitOr: operator.or_,
            ast.BitAnd: operator.and_, ast.BitXor: operator.xor, ast.MatMult: operator.matmul}
    _IOPS = {ast.Add: operator.iadd, ast.Sub: operator.isub, ast.Mult: operator.imul, ast.Div: operator.itruediv,
             ast.FloorDiv: operator.ifloordiv, ast.Mod: operator.imod, ast.Pow: operator.ipow,
             ast.LShift: operator.ilshift, ast.RShift: operator.irshift, ast.BitOr: operator.ior,
             ast.BitAnd: operator.iand, ast.BitXor: operator.ixor}
    _DUNDER = {ast.Add: "add", ast.Sub: "sub", ast.Mult: "mul", ast.Mod: "mod", ast.BitOr: "or", ast.BitAnd: "and",
               ast.FloorDiv: "floordiv", ast.Div: "truediv", ast.BitXor: "xor"}

    def binop(self, op, a, b, inplace=False):
        sa, sb = isinstance(a, Sym), isinstance(b, Sym)
        if op is ast.Mod and isinstance(a, str) and not sb:
            items = b if isinstance(b, tuple) else (b,)
            if any(isinstance(x, BaseException) and contains_sym(x.args) for x in items):
                from .strings import str_format_percent
                return str_format_percent(a, b)
        if sa or sb or contains_sym(a, 1) or contains_sym(b, 1):
            if op is ast.Mod and isinstance(a, str):
                from .strings import str_format_percent
                return str_format_percent(a, b)
            if op is ast.Add:
                if isinstance(a, str) and isinstance(b, StrVec):
                    return StrVec.lift(a) + b
                if isinstance(a, (bytes, bytearray)) and isinstance(b, SymBytes):
                    return SymBytes.lift(a) + b
                if isinstance(a, bytearray) and inplace and isinstance(b, SymBytes):
                    raise Unmodelled("in-place += of symbolic bytes onto a real bytearray")
            if op is ast.Mult and isinstance(a, (list, tuple)) and isinstance(b, SymInt):
                raise Unmodelled("sequence * symbolic int")
            if isinstance(a, (float,)) and isinstance(b, SymInt) or isinstance(b, float) and isinstance(a, SymInt):
                raise Unmodelled("float arithmetic with symbolic int")
        elif not (type(a) in _PRIMS and type(b) in _PRIMS):
            # operator methods defined in interpreted classes
            nm = self._DUNDER.get(op)
            if nm:
                ta = type(a)
                if self.is_interp_class(ta):
                    d = self._find_dunder(ta, "__%s__" % nm)
                    if d is not None and self.interpretable(d):
                        r = self.call_value(d, (a, b), {})
                        if r is not NotImplemented:
                            return r
                tb = type(b)
                if self.is_interp_class(tb):
                    d = self._find_dunder(tb, "__r%s__" % nm)
                    if d is not None and self.interpretable(d):
                        r = self.call_value(d, (b, a), {})
                        if r is not NotImplemented:
                            return r
        f = (self._IOPS if inplace else self._OPS)[op]
        return f(a, b)

    def ex_Compare(self, node, env):
        left = self.eval(node.left, env)
        result = True
        for op, rn in zip(node.ops, node.comparators):
            right = self.eval(rn, env)
            r = self.compare(type(op), left, right)
            if len(node.ops) == 1:
                return r
            if isinstance(r, SymBool) or isinstance(result, SymBool):
                result = And(result, r)
                if result is False:
                    return False
            else:
                if not self.truth(r):
                    return r
                result = r
            left = right
        return result

    def compare(self, op, a, b):
        if op is ast.Is:
            return a is b
        if op is ast.IsNot:
            return a is not b
        if op is ast.In:
            return self.contains(b, a)
        if op is ast.NotIn:
            r = self.contains(b, a)
            return Not(r) if isinstance(r, SymBool) else (not r)
        if op is ast.Eq:
            return self.equals(a, b)
        if op is ast.NotEq:
            r = self.not_equals(a, b)
            return r
        f = {ast.Lt: operator.lt, ast.LtE: operator.le, ast.Gt: operator.gt, ast.GtE: operator.ge}[op]
        return f(a, b)

    def equals(self, a, b):
        ta, tb = type(a), type(b)
        if ta in _PRIMS and tb in _PRIMS:
            return a == b
        if isinstance(a, Sym) or isinstance(b, Sym):
            return sym_eq(a, b)
        if ta in (tuple, list, dict) and (contains_sym(a) or contains_sym(b)):
            return sym_eq(a, b)
        for x, y in ((a, b), (b, a)):
            tx = type(x)
            if tx not in _PRIMS and not isinstance(x, type) and self.is_interp_class(tx):
                d = self._find_dunder(tx, "__eq__")
                if d is not None and self.interpretable(d):
                    r = self.call_value(d, (x, y), {})
                    if r is not NotImplemented:
                        return r
        return a == b

    def not_equals(self, a, b):
        ta = type(a)
        if ta not in _PRIMS and not isinstance(a, (Sym, type)) and self.is_interp_class(ta):
            d = self._find_dunder(ta, "__ne__")
            if d is not None and self.interpretable(d):
                r = self.call_value(d, (a, b), {})
                if r is not NotImplemented:
                    return r
        r = self.equals(a, b)
        return Not(r) if isinstance(r, SymBool) else (not self.truth(r))

    def contains(self, container, item):
        if isinstance(container, (StrVec,)):
            return container.contains(item)
        if isinstance(container, str) and isinstance(item, StrVec):
            return StrVec.lift(container).contains(item)
        if isinstance(container, Sym):
            c = getattr(container, "contains", None)
            if c is not None:
                return c(item)
            return item in container
        tc = type(container)
        if contains_sym(item) or (tc in (list, tuple) and contains_sym(container, 1)):
            if tc in (list, tuple, set, frozenset) or isinstance(container, (dict, type({}.keys()))):
                alts = [sym_eq(item, el) for el in list(container)]
                return Or(*alts) if alts else False
            if isinstance(container, range) and isinstance(item, SymInt):
                if container.step == 1:
                    return And(item >= container.start, item < container.stop)
            d = self._find_dunder(tc, "__contains__")
            if d is not None and self.interpretable(d):
                return self.call_value(d, (container, item), {})
            raise Unmodelled("symbolic item tested against %s" % tc.__name__)
        if tc not in _PRIMS and self.is_interp_class(tc) and not isinstance(container, type):
            d = self._find_dunder(tc, "__contains__")
            if d is not None and self.interpretable(d):
                return self.truth(self.call_value(d, (container, item), {}))
        return item in container

    def ex_IfExp(self, node, env):
        if self.truth(self.eval(node.test, env)):
            return self.eval(node.body, env)
        return self.eval(node.orelse, env)

    def ex_Lambda(self, node, env):
        return self.make_function(node, env, "<lambda>")

    def ex_NamedExpr(self, node, env):
        v = self.eval(node.value, env)
        self.assign(node.target, v, env)
        return v

    def ex_JoinedStr(self, node, env):
        out = ""
        for v in node.values:
            if isinstance(v, ast.Constant):
                out = out + v.value
            else:
                out = out + self.eval(v, env)
        return out

    def ex_FormattedValue(self, node, env):
        v = self.eval(node.value, env)
        spec = self.eval(node.format_spec, env) if node.format_spec is not None else ""
        if isinstance(v, Sym) or contains_sym(v):
            from .strings import to_str, opaque_text
            if spec or node.conversion not in (-1, 115):
                return opaque_text("fstring")
            return to_str(v)
        if node.conversion == 114:
            v = repr(v)
        elif node.conversion == 115:
            v = self.call_value(str, (v,), {})
        elif node.conversion == 97:
            v = ascii(v)
        if not spec and not isinstance(v, str):
            return self.call_value(str, (v,), {})
        return format(v, spec)

    def ex_Starred(self, node, env):
        raise Unmodelled("starred expression in this position")

    def ex_Subscript(self, node, env):
        obj = self.eval(node.value, env)
        key = self.eval_slice(node.slice, env)
        return self.getitem(obj, key)

    def eval_slice(self, s, env):
        if isinstance(s, ast.Slice):
            return slice(self.eval(s.lower, env) if s.lower is not None else None,
                         self.eval(s.upper, env) if s.upper is not None else None,
                         self.eval(s.step, env) if s.step is not None else None)
        return self.eval(s, env)

    def ex_Slice(self, node, env):
        return self.eval_slice(node, env)

    def ex_Call(self, node, env):
        fnode = node.func
        f = self.eval(fnode, env)
        args = []
        for a in node.args:
            if isinstance(a, ast.Starred):
                args.extend(self.iterate_to_list(self.eval(a.value, env)))
            else:
                args.append(self.eval(a, env))
        kwargs = {}
        for k in node.keywords:
            if k.arg is None:
                kwargs.update(self.eval(k.value, env))
            else:
                kwargs[k.arg] = self.eval(k.value, env)
        if f is super and not args:
            cls = None
            e = env
            while e is not None and cls is None:
                if e.cells and "__class__" in e.cells:
                    cls = e.cells["__class__"].cell_contents
                e = e.parent
            e = env
            while e is not None and e.first_arg is None:
                e = e.parent
            if cls is None or e is None:
                raise Unmodelled("zero-argument super() outside a method")
            return super(cls, e.first_arg)
        if f is locals:
            return dict(env.locals)
        if f is globals:
            return env.globals
        return self.call_value(f, args, kwargs)

    def _comp(self, generators, env, emit):
        def rec(i, cenv):
            if i == len(generators):
                emit(cenv)
                return
            g = generators[i]
            it = self.get_iter(self.eval(g.iter, cenv))
            while True:
                try:
                    x = self.next_(it)
                except StopIteration:
                    break
                self.assign(g.target, x, cenv)
                if all(self.truth(self.eval(c, cenv)) for c in g.ifs):
                    rec(i + 1, cenv)
        cenv = Env(env.globals, env, None, env.cls, env.fn, env.qual)
        cenv.first_arg = None
        rec(0, cenv)

    def ex_ListComp(self, node, env):
        out = []
        self._comp(node.generators, env, lambda e: out.append(self.eval(node.elt, e)))
        return out

    def ex_GeneratorExp(self, node, env):
        out = []
        self._comp(node.generators, env, lambda e: out.append(self.eval(node.elt, e)))
        return iter(out)

    def ex_SetComp(self, node, env):
        out = []
        self._comp(node.generators, env, lambda e: out.append(self.eval(node.elt, e)))
        if contains_sym(out):
            from .containers import SymSet
            return SymSet(out)
        return set(out)

    def ex_DictComp(self, node, env):
        out = {}

        def emit(e):
            k = self.eval(node.key, e)
            if isinstance(k, Sym):
                raise Unmodelled("dict comprehension with symbolic key")
            out[k] = self.eval(node.value, e)
        self._comp(node.generators, env, emit)
        return out

    def _genbuf(self, env):
        e = env
        while e is not None:
            if e.genbuf is not None:
                return e.genbuf
            if e.fn is not None:
                break
            e = e.parent
        raise Unmodelled("yield in interpreted function")

    def ex_Yield(self, node, env):
        self._genbuf(env).append(self.eval(node.value, env) if node.value is not None else None)
        return None

    def ex_YieldFrom(self, node, env):
        buf = self._genbuf(env)
        for item in self.iterate_to_list(self.eval(node.value, env)):
            buf.append(item)
        return None

    def ex_Await(self, node, env):
        raise Unmodelled("await")

    # ------------------------------------------------------------------------------------------
    # object protocol helpers
    def truth(self, v):
        if v is True or v is False or v is None:
            return bool(v)
        if isinstance(v, Sym):
            return bool(v)     # forks through the engine
        tv = type(v)
        if tv in _PRIMS:
            return bool(v)
        if self.is_interp_class(tv) and not isinstance(v, type):
            d = self._find_dunder(tv, "__bool__")
            if d is not None and self.interpretable(d):
                return self.truth(self.call_value(d, (v,), {}))
            d = self._find_dunder(tv, "__len__")
            if d is not None and self.interpretable(d):
                n = self.call_value(d, (v,), {})
                return self.truth(n != 0)
        return bool(v)

    def getattr_(self, obj, name):
        if isinstance(obj, Sym):
            return getattr(obj, name)
        tp = type(obj)
        if tp in _PRIMS or isinstance(obj, (type, types.ModuleType)):
            return getattr(obj, name)
        if self.is_interp_class(tp):
            for k in tp.__mro__:
                d = k.__dict__.get(name)
                if d is not None:
                    if isinstance(d, property) and d.fget is not None and self.interpretable(d.fget):
                        return self.call_value(d.fget, (obj,), {})
                    break
            ga = self._find_dunder(tp, "__getattr__")
            if ga is not None and self.interpretable(ga) and tp.__getattribute__ is object.__getattribute__:
                try:
                    return object.__getattribute__(obj, name)
                except AttributeError:
                    return self.call_value(ga, (obj, name), {})
        return getattr(obj, name)

    def setattr_(self, obj, name, value):
        if self.store_hook is not None:
            self.store_hook(obj, name, value)
        tp = type(obj)
        if tp not in _PRIMS and not isinstance(obj, (type, types.ModuleType, Sym)) and self.is_interp_class(tp):
            sa = self._find_dunder(tp, "__setattr__")
            if sa is not None and self.interpretable(sa):
                return self.call_value(sa, (obj, name, value), {})
            for k in tp.__mro__:
                d = k.__dict__.get(name)
                if d is not None:
                    if isinstance(d, property) and d.fset is not None and self.interpretable(d.fset):
                        return self.call_value(d.fset, (obj, value), {})
                    break
        setattr(obj, name, value)

    def getitem(self, obj, key):
        if isinstance(obj, Sym):
            return obj[key]
        to = type(obj)
        ksym = isinstance(key, Sym) or (isinstance(key, slice) and (is_sym(key.start) or is_sym(key.stop)))
        if ksym:
            if to in (bytes, bytearray, memoryview):
                return SymBytes.lift(obj)[key]
            if to is str:
                return StrVec.lift(obj)[key]
            if to in (list, tuple) and isinstance(key, SymInt):
                i = E.current().concretize(key.term, -len(obj), len(obj) - 1)
                return obj[i]
            if isinstance(obj, dict):
                return self.dict_lookup(obj, key)
        if to not in _PRIMS and not isinstance(obj, type) and self.is_interp_class(to):
            d = self._find_dunder(to, "__getitem__")
            if d is not None and self.interpretable(d):
                return self.call_value(d, (obj, key), {})
        if ksym:
            raise Unmodelled("symbolic subscript on %s" % to.__name__)
        return obj[key]

    def dict_lookup(self, d, key, default=KeyError):
        """d[key] with a symbolic key over a concrete-keyed dict: finite case split"""
        eng = E.current()
        keys = list(d.keys())
        conds = []
        import z3
        from .values import bterm
        for k in keys:
            conds.append(bterm(sym_eq(key, k)))
        none = z3.Not(z3.Or(*conds)) if conds else z3.BoolVal(True)
        i = eng.fork(conds + [none])
        if i == len(keys):
            if default is KeyError:
                raise KeyError(key)
            return default
        return d[keys[i]]

    def dict_find_key(self, d, key):
        """the concrete key of d that equals the symbolic key (case split decided by the solver), or _MISSING"""
        import z3
        from .values import bterm
        keys = list(d.keys())
        conds = [bterm(sym_eq(key, k)) for k in keys]
        none = z3.Not(z3.Or(*conds)) if conds else z3.BoolVal(True)
        i = E.current().fork(conds + [none])
        return _MISSING if i == len(keys) else keys[i]

    def unique_key_value(self, key):
        """the one concrete value a symbolic key can take on this path, or _MISSING (decided by the solver)"""
        from .strings import StrVec
        from .values import SymInt, bterm
        import z3
        eng = E.current()
        m = eng.model()
        if m is None:
            return _MISSING
        if isinstance(key, StrVec):
            v = key.eval(m)
        elif isinstance(key, SymInt):
            v = int(E.z3val(m, key.term))
        else:
            return _MISSING
        if eng.must_hold(bterm(sym_eq(key, v))):
            return v
        return _MISSING

    def setitem(self, obj, key, value):
        if isinstance(obj, Sym):
            obj[key] = value
            return
        to = type(obj)
        if isinstance(key, Sym):
            if to in (list,) and isinstance(key, SymInt):
                i = E.current().concretize(key.term, -len(obj), len(obj) - 1)
                obj[i] = value
                return
            if isinstance(obj, dict):
                k = self.dict_find_key(obj, key)
                if k is _MISSING:
                    k = self.unique_key_value(key)      # a new key whose value the path condition has fixed
                if k is _MISSING:
                    raise Unmodelled("storing under a new symbolic key in a real dict (%s)" % to.__name__)
                key = k
        if to not in _PRIMS and self.is_interp_class(to):
            d = self._find_dunder(to, "__setitem__")
            if d is not None and self.interpretable(d):
                self.call_value(d, (obj, key, value), {})
                return
        obj[key] = value

    def delitem(self, obj, key):
        if isinstance(obj, Sym):
            del obj[key]
            return
        to = type(obj)
        if isinstance(key, Sym):
            if isinstance(obj, dict):
                k = self.dict_find_key(obj, key)
                if k is _MISSING:
                    raise KeyError(key)
                key = k
            elif not (to not in _PRIMS and self.is_interp_class(to) and self._find_dunder(to, "__delitem__") is not None):
                raise Unmodelled("del with symbolic key")
        if to not in _PRIMS and self.is_interp_class(to):
            d = self._find_dunder(to, "__delitem__")
            if d is not None and self.interpretable(d):
                self.call_value(d, (obj, key), {})
                return
        del obj[key]

    def get_iter(self, obj):
        if isinstance(obj, Sym):
            return iter(obj)
        to = type(obj)
        if to not in _PRIMS and not isinstance(obj, type) and self.is_interp_class(to):
            d = self._find_dunder(to, "__iter__")
            if d is not None and self.interpretable(d):
                it = self.call_value(d, (obj,), {})
                return it
            if d is None:
                gi = self._find_dunder(to, "__getitem__")
                if gi is not None and self.interpretable(gi):
                    return _GetItemIter(self, obj, gi)
        return iter(obj)

    def next_(self, it):
        ti = type(it)
        if isinstance(it, _GetItemIter):
            return it.next()
        if ti not in _PRIMS and self.is_interp_class(ti):
            d = self._find_dunder(ti, "__next__")
            if d is not None and self.interpretable(d):
                return self.call_value(d, (it,), {})
        return next(it)

    def iterate_to_list(self, obj):
        if type(obj) in (list, tuple):
            return list(obj)
        it = self.get_iter(obj)
        out = []
        while True:
            try:
                out.append(self.next_(it))
            except StopIteration:
                return out


_MISSING = object()


class _GetItemIter:
    def __init__(self, interp, obj, gi):
        self.interp, self.obj, self.gi, self.i = interp, obj, gi, 0

    def next(self):
        try:
            v = self.interp.call_value(self.gi, (self.obj, self.i), {})
        except IndexError:
            raise StopIteration
        self.i += 1
        return v


_PRIMS = {int, float, str, bytes, bool, type(None), list, tuple, dict, set, frozenset, bytearray, complex, range,
          slice, memoryview}
