"""pysym engine: path-wise symbolic execution by re-execution, z3 as the decision procedure.

One *path* is one run of a harness under a list of branch decisions.  Symbolic conditions call
Engine.branch(); both sides are checked for satisfiability under the current path condition and the
side not taken is queued as a new decision prefix.  Obligations (check) are decided by asking the
solver for a model of  path_condition AND NOT(cond).
"""
import time
import threading
import z3

# ----------------------------------------------------------------------------------------------
# engine signals: BaseException so that no interpreted `except Exception` / bare except eats them


class EngineSignal(BaseException):
    pass


class PathEnd(EngineSignal):
    """the path was ended deliberately (assume() infeasible, violation recorded, ...)"""


class Unmodelled(EngineSignal):
    """a symbolic value reached something that has no model: harness error, never a verdict"""


class Inconclusive(EngineSignal):
    """solver said unknown on an obligation"""


class BudgetExceeded(EngineSignal):
    pass


class NonTermination(EngineSignal):
    """a loop of the code under test makes no progress: the same local state after every one of many iterations, no
    solver decision in between.  Reported as a violation candidate ('terminates') and confirmed by a native run under a
    watchdog before anything is printed."""


import os
SLOWQ = float(os.environ.get("PYSYM_SLOWQ", "0") or 0)
FORKSITES = {} if os.environ.get("PYSYM_FORKSITES") else None
# fraction of the obligation queries that is re-decided by cvc5 (second opinion); set per tier by the runner
XCHECK = {"rate": float(os.environ.get("PYSYM_XCHECK", "-1")), "timeout_ms": 4000}


def cvc5_decide(smt2, timeout_ms):
    """re-decides an exported SMT-LIB2 benchmark with the cvc5 python API; returns 'sat' | 'unsat' | 'unknown'"""
    import cvc5
    slv = cvc5.Solver()
    slv.setOption("tlimit-per", str(timeout_ms))
    slv.setLogic("ALL")
    ip = cvc5.InputParser(slv)
    ip.setStringInput(cvc5.InputLanguage.SMT_LIB_2_6, smt2, "obligation")
    sm = ip.getSymbolManager()
    verdict = "unknown"
    while True:
        cmd = ip.nextCommand()
        if cmd.isNull():
            break
        if cmd.getCommandName() == "set-logic":
            continue
        out = cmd.invoke(slv, sm).strip()
        if "(error" in out:
            return "unknown"
        if cmd.getCommandName() == "check-sat":
            verdict = out if out in ("sat", "unsat") else "unknown"
    return verdict


def _site(tag, n):
    import traceback
    st = [l for l in traceback.extract_stack(limit=30) if "engine.py" not in l.filename and "interp.py" not in l.filename]
    key = tag + " " + " < ".join("%s:%d" % (l.filename.split("/")[-1], l.lineno) for l in reversed(st[-4:]))
    FORKSITES[key] = FORKSITES.get(key, 0) + n
_tls = threading.local()


def current():
    e = getattr(_tls, "engine", None)
    if e is None:
        raise RuntimeError("no pysym engine active on this thread")
    return e


def active():
    return getattr(_tls, "engine", None)


def set_current(e):
    _tls.engine = e


def z3val(model, term):
    v = model.eval(term, model_completion=True)
    if z3.is_int_value(v):
        return v.as_long()
    if z3.is_true(v):
        return True
    if z3.is_false(v):
        return False
    if z3.is_rational_value(v):
        return float(v.numerator_as_long()) / float(v.denominator_as_long())
    if z3.is_algebraic_value(v):
        return float(v.approx(20).as_fraction())
    return str(v)


class PathResult:
    __slots__ = ("decisions", "pending", "status", "violations", "covers", "obligations", "discharged",
                 "queries", "solver_s", "assumes", "observations", "witness", "knowns", "error", "unwind_hits",
                 "notes", "unknowns", "xchecked", "xagree", "xunknown")

    def __init__(self):
        self.decisions = []
        self.pending = []        # new prefixes discovered
        self.status = "ok"       # ok | pruned | violation | error | inconclusive
        self.violations = []     # dicts: label, model, path
        self.covers = set()
        self.obligations = 0
        self.discharged = 0
        self.queries = 0
        self.solver_s = 0.0
        self.assumes = []
        self.observations = None
        self.witness = None
        self.knowns = []
        self.error = None
        self.unwind_hits = 0
        self.notes = []
        self.unknowns = 0
        self.xchecked = 0        # obligations re-decided by cvc5
        self.xagree = 0
        self.xunknown = 0


class Engine:
    """State of one path."""

    def __init__(self, prefix=(), timeout_ms=20000, seed=0, max_decisions=20000):
        self.prefix = list(prefix)
        self.pos = 0
        self.trace = []
        self.solver = z3.Solver()
        self.solver.set("timeout", timeout_ms)
        if seed:
            self.solver.set("random_seed", seed & 0x7fffffff)
        self.timeout_ms = timeout_ms
        self.res = PathResult()
        self.inputs = {}         # name -> (kind, term/obj) declared inputs (for witness extraction)
        self.order = []          # declaration order
        self.fresh_n = 0
        self.max_decisions = max_decisions
        self.pc = []             # for export
        self.mode = "symbolic"
        self.known_preds = []    # (label, z3 bool) known-finding classes registered by harness
        self.memo = {}
        self.informative = 0     # decisions that were not already implied by the path condition
        self.deadline = time.perf_counter() + float(os.environ.get("PYSYM_PATH_BUDGET", "300"))

    # -- low level ------------------------------------------------------------------------------
    def fresh(self, base, sort="int"):
        self.fresh_n += 1
        name = "%s!%d" % (base, self.fresh_n)
        if sort == "int":
            return z3.Int(name)
        if sort == "bool":
            return z3.Bool(name)
        if sort == "real":
            return z3.Real(name)
        raise ValueError(sort)

    def add(self, c):
        if c is True:
            return
        if c is False:
            c = z3.BoolVal(False)
        self.solver.add(c)
        self.pc.append(c)

    def _check(self, *assumptions):
        t0 = time.perf_counter()
        if t0 > self.deadline:
            raise BudgetExceeded("path exceeded its wall-clock budget")
        r = self.solver.check(*assumptions)
        dt = time.perf_counter() - t0
        if SLOWQ and dt > SLOWQ:
            import traceback
            st = [l for l in traceback.format_stack(limit=14) if "interp.py" not in l]
            print("SLOW QUERY %.2fs %s assumptions=%s\n%s" % (dt, r, [str(a)[:200] for a in assumptions], "".join(st[-5:])), flush=True)
        self.res.solver_s += dt
        self.res.queries += 1
        return r

    def feasible(self, c):
        r = self._check(c)
        if r == z3.unknown:
            self.res.unknowns += 1
            return True          # explore it; sound (a later sat model is still a real model)
        if r == z3.unsat:
            # a pruned alternative: this is where an unsound solver answer would silently lose paths
            self.second_opinion("prune@%d" % len(self.trace), c, "unsat", scale=0.25)
        return r == z3.sat

    # -- forking --------------------------------------------------------------------------------
    def branch(self, cond):
        """cond: z3 BoolRef. returns python bool; records the decision."""
        cond = z3.simplify(cond)
        if z3.is_true(cond):
            return True
        if z3.is_false(cond):
            return False
        if self.pos < len(self.prefix):
            d = self.prefix[self.pos]
            self.informative += 1
        else:
            if len(self.trace) >= self.max_decisions:
                raise BudgetExceeded("too many decisions on one path")
            t = self.feasible(cond)
            f = self.feasible(z3.Not(cond)) if t else True
            if t and f:
                self.informative += 1
                d = True
                self.res.pending.append(self.trace + [False])
                if FORKSITES is not None:
                    import traceback
                    st = [l for l in traceback.extract_stack(limit=25) if "engine.py" not in l.filename]
                    key = " < ".join("%s:%d" % (l.filename.split("/")[-1], l.lineno) for l in reversed(st[-4:]) if "interp.py" not in l.filename)
                    FORKSITES[key] = FORKSITES.get(key, 0) + 1
            elif t:
                d = True
            else:
                d = False
        self.pos += 1
        self.trace.append(d)
        self.add(cond if d else z3.Not(cond))
        return d

    def fork(self, conds, labels=None):
        """multi-way case split: returns index i of a feasible cond; others are queued."""
        n = len(conds)
        if self.pos < len(self.prefix):
            d = self.prefix[self.pos]
        else:
            feas = [i for i in range(n) if self.feasible(conds[i])]
            if not feas:
                raise PathEnd("no feasible alternative")
            d = feas[0]
            for i in feas[1:]:
                self.res.pending.append(self.trace + [i])
            if FORKSITES is not None and len(feas) > 1:
                _site("fork%d" % len(feas), len(feas) - 1)
        self.pos += 1
        self.informative += 1
        self.trace.append(d)
        self.add(conds[d])
        return d

    def concretize(self, term, lo=None, hi=None, limit=4096):
        """case-split an Int term over its feasible values (unique-value fast path)."""
        term = z3.simplify(term)
        if z3.is_int_value(term):
            return term.as_long()
        if self.pos < len(self.prefix):
            v = self.prefix[self.pos]
            self.pos += 1
            self.trace.append(v)
            self.add(term == v)
            return v
        r = self._check()
        if r != z3.sat:
            raise PathEnd("infeasible at concretize")
        v = z3val(self.solver.model(), term)
        others = []
        if self._check(term != v) != z3.unsat:
            # enumerate the other values
            self.solver.push()
            self.solver.add(term != v)
            if lo is not None:
                self.solver.add(term >= lo)
            if hi is not None:
                self.solver.add(term <= hi)
            while len(others) < limit:
                rr = self._check()
                if rr != z3.sat:
                    break
                w = z3val(self.solver.model(), term)
                others.append(w)
                self.solver.add(term != w)
            else:
                self.solver.pop()
                raise Unmodelled("concretize: more than %d values for %s" % (limit, term))
            self.solver.pop()
        self.informative += 1 if others else 0
        for w in others:
            self.res.pending.append(self.trace + [w])
        if FORKSITES is not None and others:
            _site("concretize", len(others))
        self.pos += 1
        self.trace.append(v)
        self.add(term == v)
        return v

    def sample(self, leaves, n, what):
        """FALLBACK for constructs outside the modelled fragment: the symbolic leaves (each with .eval(model) and an
        equality constraint builder) are fixed to up to `n` solver-chosen, pairwise different assignments, one explored
        path each.  When further assignments remain feasible the call site is recorded as SAMPLED: the check then no
        longer claims 'for all values within the bounds' for the paths through it (reported as DEGRADED, listed in the
        evidence); a violation found on a sample is a real, natively replayed violation like any other."""
        def eqs(vals):
            return z3.And(*[mk(v) for (_, mk), v in zip(leaves, vals)]) if leaves else z3.BoolVal(True)
        if self.pos < len(self.prefix):
            vals = self.prefix[self.pos]
        else:
            if self._check() != z3.sat:
                raise PathEnd("infeasible at sample")
            m = self.solver.model()
            vals = tuple(ev(m) for ev, _ in leaves)
            alts = []
            self.solver.push()
            self.solver.add(z3.Not(eqs(vals)))
            more = False
            while True:
                rr = self._check()
                if rr != z3.sat:
                    break
                if len(alts) >= n - 1:
                    more = True
                    break
                m = self.solver.model()
                w = tuple(ev(m) for ev, _ in leaves)
                alts.append(w)
                self.solver.add(z3.Not(eqs(w)))
            self.solver.pop()
            for w in alts:
                self.res.pending.append(self.trace + [w])
            if more:
                self.res.notes.append("SAMPLED: %s explored for %d solver-chosen argument values only" % (what, 1 + len(alts)))
        self.pos += 1
        self.trace.append(vals)
        self.add(eqs(vals))
        return vals

    # -- obligations ----------------------------------------------------------------------------
    def must_hold(self, cond):
        """True iff pc implies cond (no fork). unknown -> False"""
        cond = z3.simplify(cond)
        if z3.is_true(cond):
            return True
        if z3.is_false(cond):
            return False
        return self._check(z3.Not(cond)) == z3.unsat

    def model(self):
        r = self._check()
        if r != z3.sat:
            return None
        return self.solver.model()

    def second_opinion(self, label, negated, verdict, scale=1.0):
        """a deterministic sample of the obligation queries (path condition AND NOT property) is exported as SMT-LIB2
        and re-decided by cvc5; a contradiction between the two solvers is a harness error, never a pass"""
        rate = XCHECK["rate"] * scale
        if rate <= 0:
            return
        import zlib as _z
        h = _z.crc32(("%s|%s" % (label, self.trace)).encode()) / 0xffffffff
        if h >= rate:
            return
        s2 = z3.Solver()
        s2.add(*self.pc)
        s2.add(negated)
        try:
            other = cvc5_decide(s2.to_smt2(), XCHECK["timeout_ms"])
        except Exception as x:      # parser limitations count as "not compared"
            other = "unknown"
        self.res.xchecked += 1
        if other == "unknown":
            self.res.xunknown += 1
        elif other == verdict:
            self.res.xagree += 1
        else:
            self.res.status = "error"
            self.res.error = "solver disagreement on obligation %s: z3 says %s, cvc5 says %s" % (label, verdict, other)
            raise Unmodelled(self.res.error)


def path_stats_merge(total, r):
    total["paths"] += 1
    total["obligations"] += r.obligations
    total["discharged"] += r.discharged
    total["queries"] += r.queries
    total["solver_s"] += r.solver_s
    total["decisions"] += len(r.decisions)
    total["unwind_hits"] += r.unwind_hits
    total["unknowns"] += r.unknowns
