"""Character classes generated from the running interpreter (so they are the classes the real
str/int/re functions use), as sorted lists of inclusive code point ranges."""
import json
import os
import sys
import unicodedata
import z3

_CACHE = os.path.join(os.path.dirname(os.path.dirname(os.path.abspath(__file__))), "work",
                      "charclass2-%d.%d.%d.json" % sys.version_info[:3])
MAXCP = 0x10FFFF


def _ranges(pred):
    out = []
    start = None
    for i in range(MAXCP + 2):
        ok = i <= MAXCP and pred(i)
        if ok and start is None:
            start = i
        elif not ok and start is not None:
            out.append((start, i - 1))
            start = None
    return out


def _build():
    d = {}
    d["space"] = _ranges(lambda i: chr(i).isspace())
    d["digit"] = _ranges(lambda i: unicodedata.decimal(chr(i), None) is not None)
    d["alnum"] = _ranges(lambda i: chr(i).isalnum())

    def intspace(i):
        if 0xD800 <= i <= 0xDFFF:
            return False
        try:
            return int(chr(i) + "1") == 1 and int("1" + chr(i)) == 1
        except ValueError:
            return False
    d["intspace"] = _ranges(intspace)
    # digit blocks with their value offset: every Nd run is a multiple of 10 long, values 0..9 cyclic
    blocks = []
    for lo, hi in d["digit"]:
        i = lo
        while i <= hi:
            assert unicodedata.decimal(chr(i)) == 0, hex(i)
            for k in range(10):
                assert unicodedata.decimal(chr(i + k)) == k
            blocks.append(i)
            i += 10
    d["digit_blocks"] = blocks
    return d


def _load():
    try:
        with open(_CACHE) as f:
            return json.load(f)
    except Exception:
        d = _build()
        try:
            os.makedirs(os.path.dirname(_CACHE), exist_ok=True)
            tmp = _CACHE + ".%d.tmp" % os.getpid()
            with open(tmp, "w") as f:
                json.dump(d, f)
            os.replace(tmp, _CACHE)
        except OSError:
            pass
        return d


_D = _load()
SPACE = [tuple(r) for r in _D["space"]]
DIGIT = [tuple(r) for r in _D["digit"]]
ALNUM = [tuple(r) for r in _D["alnum"]]
INTSPACE = [tuple(r) for r in _D["intspace"]]      # what int(str) skips around the number (differs from str.isspace)
DIGIT_BLOCKS = list(_D["digit_blocks"])
WORD = sorted(ALNUM + [(0x5F, 0x5F)])


def in_ranges(c, ranges):
    """z3 bool: code point term c lies in one of the ranges"""
    if isinstance(c, int):
        return z3.BoolVal(any(lo <= c <= hi for lo, hi in ranges))
    if z3.is_int_value(c):
        v = c.as_long()
        return z3.BoolVal(any(lo <= v <= hi for lo, hi in ranges))
    alts = []
    for lo, hi in ranges:
        if lo == hi:
            alts.append(c == lo)
        else:
            alts.append(z3.And(c >= lo, c <= hi))
    if not alts:
        return z3.BoolVal(False)
    return z3.Or(*alts)


def digit_value(c):
    """z3 int: decimal value of a code point known to be a decimal digit"""
    t = z3.IntVal(0)
    for b in reversed(DIGIT_BLOCKS):
        t = z3.If(z3.And(c >= b, c <= b + 9), c - b, t)
    return t


def ranges_negate(ranges):
    out = []
    prev = 0
    for lo, hi in sorted(ranges):
        if lo > prev:
            out.append((prev, lo - 1))
        prev = max(prev, hi + 1)
    if prev <= MAXCP:
        out.append((prev, MAXCP))
    return out
