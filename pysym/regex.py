"""Symbolic backtracking regex matcher over StrVec, generated from re._parser.parse(pattern) -- same
alternative order as CPython's engine (greedy/lazy repeats, branches, groups), so group spans agree.
Positions are concrete on every path; character tests and length tests fork through the solver."""
import re
import z3
try:
    import re._parser as sre_parse
    import re._constants as sre_c
except ImportError:                      # pragma: no cover
    import sre_parse
    import sre_constants as sre_c

from . import engine as E
from .engine import Unmodelled
from .values import Sym
from .strings import StrVec
from . import charclass as CC

MAXREPEAT = sre_c.MAXREPEAT


def _class_term(items, c, ignorecase=False):
    """z3 bool for an IN set"""
    negate = False
    alts = []
    for op, av in items:
        if op is sre_c.NEGATE:
            negate = True
        elif op is sre_c.LITERAL:
            alts.append(c == av)
        elif op is sre_c.RANGE:
            alts.append(z3.And(c >= av[0], c <= av[1]))
        elif op is sre_c.CATEGORY:
            alts.append(_category(av, c))
        else:
            raise Unmodelled("regex set item %s" % (op,))
    t = z3.Or(*alts) if alts else z3.BoolVal(False)
    return z3.Not(t) if negate else t


def _category(av, c):
    if av is sre_c.CATEGORY_DIGIT:
        return CC.in_ranges(c, CC.DIGIT)
    if av is sre_c.CATEGORY_NOT_DIGIT:
        return z3.Not(CC.in_ranges(c, CC.DIGIT))
    if av is sre_c.CATEGORY_SPACE:
        return CC.in_ranges(c, CC.SPACE)
    if av is sre_c.CATEGORY_NOT_SPACE:
        return z3.Not(CC.in_ranges(c, CC.SPACE))
    if av is sre_c.CATEGORY_WORD:
        return CC.in_ranges(c, CC.WORD)
    if av is sre_c.CATEGORY_NOT_WORD:
        return z3.Not(CC.in_ranges(c, CC.WORD))
    raise Unmodelled("regex category %s" % (av,))


class Matcher:
    def __init__(self, pattern, flags=0):
        if isinstance(pattern, re.Pattern):
            flags = pattern.flags
            pattern = pattern.pattern
        if not isinstance(pattern, str):
            raise Unmodelled("bytes / symbolic regex pattern")
        self.pattern = pattern
        self.flags = flags
        if flags & (re.IGNORECASE | re.MULTILINE | re.VERBOSE | re.ASCII | re.LOCALE):
            raise Unmodelled("regex flags %r" % flags)
        self.dotall = bool(flags & re.DOTALL)
        self.tree = sre_parse.parse(pattern, flags)
        self.ngroups = self.tree.state.groups
        self.groupindex = dict(self.tree.state.groupdict)

    def _test(self, s, pos, f):
        """python bool (forks): pos < len(s) and f(char at pos)"""
        if pos >= s.cap():
            return False
        return E.current().branch(z3.And(s.nterm() > pos, f(s.chars[pos])))

    def run(self, seq, s, pos, groups, k):
        if not seq:
            return k(pos, groups)
        op, av = seq[0]
        rest = seq[1:]
        eng = E.current()
        if op is sre_c.LITERAL:
            if self._test(s, pos, lambda c: c == av):
                return self.run(rest, s, pos + 1, groups, k)
            return None
        if op is sre_c.NOT_LITERAL:
            if self._test(s, pos, lambda c: c != av):
                return self.run(rest, s, pos + 1, groups, k)
            return None
        if op is sre_c.ANY:
            if self._test(s, pos, (lambda c: z3.BoolVal(True)) if self.dotall else (lambda c: c != 10)):
                return self.run(rest, s, pos + 1, groups, k)
            return None
        if op is sre_c.IN:
            if self._test(s, pos, lambda c: _class_term(av, c)):
                return self.run(rest, s, pos + 1, groups, k)
            return None
        if op is sre_c.CATEGORY:
            if self._test(s, pos, lambda c: _category(av, c)):
                return self.run(rest, s, pos + 1, groups, k)
            return None
        if op is sre_c.AT:
            if av is sre_c.AT_BEGINNING or av is sre_c.AT_BEGINNING_STRING:
                ok = pos == 0
            elif av is sre_c.AT_END:
                n = s.nterm()
                cond = n == pos
                if pos < s.cap():
                    cond = z3.Or(cond, z3.And(n == pos + 1, s.chars[pos] == 10))
                ok = eng.branch(cond)
            elif av is sre_c.AT_END_STRING:
                ok = eng.branch(s.nterm() == pos)
            else:
                raise Unmodelled("regex anchor %s" % (av,))
            return self.run(rest, s, pos, groups, k) if ok else None
        if op is sre_c.SUBPATTERN:
            group, add_flags, del_flags, p = av
            if add_flags or del_flags:
                raise Unmodelled("inline regex flags")
            start = pos

            def after(p2, g2):
                if group is not None:
                    g2 = dict(g2)
                    g2[group] = (start, p2)
                return self.run(rest, s, p2, g2, k)
            return self.run(list(p), s, pos, groups, after)
        if op is sre_c.BRANCH:
            for alt in av[1]:
                r = self.run(list(alt) + rest, s, pos, groups, k)
                if r is not None:
                    return r
            return None
        if op is sre_c.MAX_REPEAT or op is sre_c.MIN_REPEAT:
            lo, hi, sub = av
            sub = list(sub)
            greedy = op is sre_c.MAX_REPEAT

            def rep(count, p, g):
                def more():
                    if hi is not MAXREPEAT and count >= hi:
                        return None
                    if p >= s.cap() and _consumes(sub):
                        return None
                    return self.run(sub, s, p, g, lambda p2, g2: None if (p2 == p and count >= lo) else rep(count + 1, p2, g2))

                def done():
                    if count < lo:
                        return None
                    return self.run(rest, s, p, g, k)
                if greedy:
                    r = more()
                    if r is not None:
                        return r
                    return done()
                r = done()
                if r is not None:
                    return r
                return more()
            return rep(0, pos, groups)
        raise Unmodelled("regex operator %s" % (op,))

    # -- entry points ----------------------------------------------------------------------------
    def match(self, s, start=0, full=False):
        s = StrVec.lift(s)

        def fin(p, g):
            if full and not E.current().branch(s.nterm() == p):
                return None
            return SymMatch(self, s, start, p, g)
        return self.run(list(self.tree), s, start, {}, fin)

    def search(self, s):
        s = StrVec.lift(s)
        for st in range(0, s.cap() + 1):
            if st > 0 and not E.current().branch(s.nterm() >= st):
                break
            m = self.match(s, st)
            if m is not None:
                return m
        return None


def _consumes(sub):
    for op, av in sub:
        if op in (sre_c.LITERAL, sre_c.NOT_LITERAL, sre_c.ANY, sre_c.IN, sre_c.CATEGORY):
            return True
    return False


class SymMatch:
    """match object over a StrVec (spans are concrete)"""

    def __init__(self, matcher, s, start, end, groups):
        self.matcher = matcher
        self.string = s
        self._span = (start, end)
        self._groups = groups
        self.re = matcher

    def __bool__(self):
        return True

    def _idx(self, g):
        if isinstance(g, str):
            if g not in self.matcher.groupindex:
                raise IndexError("no such group")
            return self.matcher.groupindex[g]
        if g < 0 or g > self.matcher.ngroups - 1:
            raise IndexError("no such group")
        return g

    def span(self, g=0):
        g = self._idx(g)
        if g == 0:
            return self._span
        return self._groups.get(g, (-1, -1))

    def start(self, g=0):
        return self.span(g)[0]

    def end(self, g=0):
        return self.span(g)[1]

    def group(self, *gs):
        if not gs:
            gs = (0,)
        out = []
        for g in gs:
            a, b = self.span(g)
            if a < 0:
                out.append(None)
            else:
                out.append(StrVec.from_terms(self.string.chars[a:b]).maybe_concrete())
        return out[0] if len(out) == 1 else tuple(out)

    def __getitem__(self, g):
        return self.group(g)

    def groups(self, default=None):
        out = []
        for g in range(1, self.matcher.ngroups):
            v = self.group(g)
            out.append(default if v is None else v)
        return tuple(out)

    def groupdict(self, default=None):
        return {name: (default if self.group(i) is None else self.group(i)) for name, i in self.matcher.groupindex.items()}


_CACHE = {}


def get_matcher(pattern, flags=0):
    key = (pattern if isinstance(pattern, str) else id(pattern), flags)
    m = _CACHE.get(key)
    if m is None:
        m = _CACHE[key] = Matcher(pattern, flags)
    return m


def install(interp):
    from . import models as M

    def m_match(interp_, args, kwargs):
        M.USED.add("re.match (generated backtracking matcher)")
        pattern, s = args[0], args[1]
        return get_matcher(pattern, args[2] if len(args) > 2 else kwargs.get("flags", 0)).match(s)

    def m_fullmatch(interp_, args, kwargs):
        M.USED.add("re.fullmatch (generated backtracking matcher)")
        return get_matcher(args[0], args[2] if len(args) > 2 else kwargs.get("flags", 0)).match(args[1], full=True)

    def m_search(interp_, args, kwargs):
        M.USED.add("re.search (generated backtracking matcher)")
        return get_matcher(args[0], args[2] if len(args) > 2 else kwargs.get("flags", 0)).search(args[1])

    interp.models[re.match] = m_match
    interp.models[re.fullmatch] = m_fullmatch
    interp.models[re.search] = m_search

    def mm_pat(name):
        def f(interp_, self, args, kwargs):
            M.USED.add("re.Pattern.%s (generated backtracking matcher)" % name)
            mt = get_matcher(self)
            if name == "match":
                return mt.match(args[0])
            if name == "fullmatch":
                return mt.match(args[0], full=True)
            return mt.search(args[0])
        return f
    for nm in ("match", "fullmatch", "search"):
        interp.method_models[(re.Pattern, nm)] = mm_pat(nm)
