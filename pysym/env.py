"""Environment stubs shared by harnesses: clock, sleep, uuid.  In symbolic mode they are 'always' models of the
interpreter; in native replay they are installed with unittest.mock.patch."""
import time
import uuid
import contextlib
from unittest import mock

from . import engine as E


class Clock:
    """fake clock: a harness assigns .now (concrete float or SymReal); time.time() returns it"""

    def __init__(self):
        self.now = 1000.0
        self.sleeps = 0

    def time(self):
        return self.now

    def sleep(self, d):
        self.sleeps += 1


CLOCK = Clock()


def install(interp):
    interp.always[time.sleep] = lambda interp, args, kwargs: CLOCK.sleep(*args)
    interp.always[time.time] = lambda interp, args, kwargs: CLOCK.time()
    interp.always[time.monotonic] = lambda interp, args, kwargs: CLOCK.time()


@contextlib.contextmanager
def native_env_zlib(S):
    """native replay with the zlib *contract* stub (lengths and garbage outcomes taken from the witness)"""
    from .models import ContractZlib
    z = ContractZlib(S)
    with native_env(S), mock.patch("zlib.compress", z.compress), mock.patch("zlib.decompress", z.decompress):
        yield


@contextlib.contextmanager
def native_env(S=None):
    CLOCK.sleeps = 0
    with mock.patch("time.sleep", CLOCK.sleep), mock.patch("time.time", CLOCK.time), \
            mock.patch("time.monotonic", CLOCK.time):
        yield
