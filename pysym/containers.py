"""Interpreter-side overlays for containers that must hold symbolic keys: sets and dicts as association
lists whose members are kept pairwise distinct by forking on insertion."""
import z3
from . import engine as E
from .engine import Unmodelled
from .values import Sym, SymBool, sym_eq, And, Or, Not, bterm, mkbool, contains_sym


def _truth(c):
    if isinstance(c, bool):
        return c
    return E.current().branch(bterm(c))


class SymSet(Sym):
    __slots__ = ("items", "frozen")

    def __init__(self, items=(), frozen=False):
        self.items = []
        self.frozen = frozen
        for x in items:
            self.add(x)

    def _short(self):
        return "set of %d" % len(self.items)

    __hash__ = Sym.__hash__

    def add(self, x):
        _check_hashable(x)
        for y in self.items:
            if _truth(sym_eq(x, y)):
                return
        self.items.append(x)

    def discard(self, x):
        for i, y in enumerate(self.items):
            if _truth(sym_eq(x, y)):
                del self.items[i]
                return

    def remove(self, x):
        n = len(self.items)
        self.discard(x)
        if len(self.items) == n:
            raise KeyError(x)

    def contains(self, x):
        alts = [sym_eq(x, y) for y in self.items]
        return Or(*alts) if alts else False

    def __contains__(self, x):
        return self.contains(x)

    def __iter__(self):
        return iter(list(self.items))

    def __len__(self):
        return len(self.items)

    def length(self):
        return len(self.items)

    def __bool__(self):
        return bool(self.items)

    def _other_items(self, other):
        if isinstance(other, SymSet):
            return other.items
        if isinstance(other, (set, frozenset, list, tuple)) or hasattr(other, "__iter__"):
            return list(other)
        raise TypeError("not a set")

    def issubset(self, other):
        o = self._other_items(other)
        return And(*[Or(*[sym_eq(x, y) for y in o]) if o else False for x in self.items]) if self.items else True

    def issuperset(self, other):
        o = self._other_items(other)
        return And(*[self.contains(y) for y in o]) if o else True

    def __le__(self, other):
        return self.issubset(other)

    def __ge__(self, other):
        return self.issuperset(other)

    def eq(self, other):
        if not isinstance(other, (SymSet, set, frozenset)):
            return False
        return And(self.issubset(other), self.issuperset(other))

    def __eq__(self, other):
        return self.eq(other)

    def __ne__(self, other):
        return Not(self.eq(other))

    def copy(self):
        s = SymSet((), self.frozen)
        s.items = list(self.items)
        return s

    def union(self, *others):
        s = self.copy()
        for o in others:
            for y in self._other_items(o):
                s.add(y)
        return s

    __or__ = union

    def __ror__(self, other):
        return self.union(other)

    def update(self, *others):
        for o in others:
            for y in self._other_items(o):
                self.add(y)

    def intersection(self, other):
        o = self._other_items(other)
        s = SymSet((), self.frozen)
        for x in self.items:
            if _truth(Or(*[sym_eq(x, y) for y in o]) if o else False):
                s.items.append(x)
        return s

    __and__ = intersection

    def __rand__(self, other):
        return self.intersection(other)

    def difference(self, other):
        o = self._other_items(other)
        s = SymSet((), self.frozen)
        for x in self.items:
            if not _truth(Or(*[sym_eq(x, y) for y in o]) if o else False):
                s.items.append(x)
        return s

    __sub__ = difference

    def isdisjoint(self, other):
        o = self._other_items(other)
        return Not(Or(*[sym_eq(x, y) for x in self.items for y in o])) if (o and self.items) else True


def _check_hashable(x):
    if isinstance(x, (list, dict, set, bytearray)) or (isinstance(x, SymSet) and not x.frozen):
        raise TypeError("unhashable type: '%s'" % type(x).__name__)
    from .sbytes import SymBytes
    if isinstance(x, SymBytes) and x.kind == "bytearray":
        raise TypeError("unhashable type: 'bytearray'")
    if isinstance(x, tuple):
        for y in x:
            _check_hashable(y)


class HashToken(Sym):
    """result of hash(x) for a symbolic x: two tokens are equal iff the hashed values are equal
    (hash is a function; collisions between unequal values are not modelled as equal)."""
    __slots__ = ("value",)

    def __init__(self, value):
        self.value = value

    def __eq__(self, other):
        if isinstance(other, HashToken):
            return sym_eq(self.value, other.value)
        raise Unmodelled("comparing a symbolic hash with a number")

    def __ne__(self, other):
        return Not(self.__eq__(other))

    __hash__ = Sym.__hash__


def hash_token(x):
    _check_hashable(x)
    return HashToken(x)


class SymDict(Sym):
    """association list with symbolic keys, keys pairwise distinct (decided by forking on insertion)"""
    __slots__ = ("pairs",)

    def __init__(self, pairs=()):
        self.pairs = []
        for k, v in pairs:
            self[k] = v

    def _short(self):
        return "dict of %d" % len(self.pairs)

    __hash__ = Sym.__hash__

    def _find(self, k):
        for i, (kk, _) in enumerate(self.pairs):
            if _truth(sym_eq(k, kk)):
                return i
        return -1

    def __getitem__(self, k):
        i = self._find(k)
        if i < 0:
            raise KeyError(k)
        return self.pairs[i][1]

    def __setitem__(self, k, v):
        _check_hashable(k)
        i = self._find(k)
        if i < 0:
            self.pairs.append((k, v))
        else:
            self.pairs[i] = (self.pairs[i][0], v)

    def __delitem__(self, k):
        i = self._find(k)
        if i < 0:
            raise KeyError(k)
        del self.pairs[i]

    def contains(self, k):
        alts = [sym_eq(k, kk) for kk, _ in self.pairs]
        return Or(*alts) if alts else False

    def __contains__(self, k):
        return self.contains(k)

    def get(self, k, default=None):
        i = self._find(k)
        return default if i < 0 else self.pairs[i][1]

    def pop(self, k, *default):
        i = self._find(k)
        if i < 0:
            if default:
                return default[0]
            raise KeyError(k)
        v = self.pairs[i][1]
        del self.pairs[i]
        return v

    def setdefault(self, k, default=None):
        i = self._find(k)
        if i < 0:
            self.pairs.append((k, default))
            return default
        return self.pairs[i][1]

    def keys(self):
        return [k for k, _ in self.pairs]

    def values(self):
        return [v for _, v in self.pairs]

    def items(self):
        return list(self.pairs)

    def __iter__(self):
        return iter(self.keys())

    def __len__(self):
        return len(self.pairs)

    def length(self):
        return len(self.pairs)

    def __bool__(self):
        return bool(self.pairs)

    def copy(self):
        d = SymDict()
        d.pairs = list(self.pairs)
        return d

    def update(self, other=(), **kw):
        items = other.items() if hasattr(other, "items") else other
        for k, v in items:
            self[k] = v
        for k, v in kw.items():
            self[k] = v

    def clear(self):
        self.pairs = []

    def eq(self, other):
        if isinstance(other, dict):
            other = SymDict(list(other.items()))
        if not isinstance(other, SymDict):
            return False
        if len(self.pairs) != len(other.pairs):
            return False
        conj = []
        for k, v in self.pairs:
            conj.append(Or(*[And(sym_eq(k, k2), sym_eq(v, v2)) for k2, v2 in other.pairs]))
        return And(*conj) if conj else True

    def __eq__(self, other):
        return self.eq(other)

    def __ne__(self, other):
        return Not(self.eq(other))
