"""Models of builtins and stdlib functions for symbolic arguments (each one is part of the claim)."""
import builtins
import struct
import logging
import warnings
import zlib
import re
import time
import traceback
import types
import z3

from . import engine as E
from .engine import Unmodelled
from .values import (Sym, SymBool, SymInt, SymReal, mkbool, mkint, iterm, bterm, ite, And, Or, Not, sym_eq,
                     contains_sym, is_sym)
from .strings import StrVec, str_to_int, int_to_str, to_str, opaque_text, str_format_percent
from .sbytes import SymBytes, BPart, OPart, int_from_bytes, int_to_bytes

USED = set()      # names of models actually used in this process (reported in evidence)


def _used(name):
    USED.add(name)


def model(name, always=False):
    def deco(f):
        def wrapper(interp, args, kwargs):
            USED.add(name)
            return f(interp, *args, **kwargs)
        wrapper._always = always
        wrapper.__name__ = "model_" + name
        return wrapper
    return deco


# ------------------------------------------------------------------------------------------------
def emulated_type(x):
    if isinstance(x, SymBool):
        return bool
    if isinstance(x, SymInt):
        return int
    if isinstance(x, SymReal):
        return float
    if isinstance(x, StrVec):
        return str
    if isinstance(x, SymBytes):
        return {"bytes": bytes, "bytearray": bytearray, "memoryview": memoryview}[x.kind]
    from .containers import SymSet, SymDict
    if isinstance(x, SymSet):
        return frozenset if x.frozen else set
    if isinstance(x, SymDict):
        return dict
    return type(x)


@model("isinstance")
def m_isinstance(interp, obj, cls):
    if isinstance(obj, Sym):
        t = emulated_type(obj)
        if isinstance(cls, tuple):
            return any(issubclass(t, c) for c in cls)
        return issubclass(t, cls)
    return isinstance(obj, cls)


@model("type")
def m_type(interp, *args):
    if len(args) == 1:
        return emulated_type(args[0])
    return type(*args)


@model("len")
def m_len(interp, x):
    if isinstance(x, (StrVec, SymBytes)):
        return x.length()
    if isinstance(x, Sym):
        ln = getattr(x, "length", None)
        if ln is not None:
            return ln()
        raise TypeError("object of type '%s' has no len()" % emulated_type(x).__name__)
    return len(x)


def _len_always(interp, args, kwargs):
    (x,) = args
    if isinstance(x, Sym):
        return m_len(interp, args, kwargs)
    tx = type(x)
    if tx not in _FAST and interp.is_interp_class(tx):
        d = interp._find_dunder(tx, "__len__")
        if d is not None and interp.interpretable(d):
            return interp.call_value(d, (x,), {})
    return len(x)


_FAST = {int, float, str, bytes, bool, type(None), list, tuple, dict, set, frozenset, bytearray}


def _bool_always(interp, args, kwargs):
    if not args:
        return False
    x = args[0]
    if isinstance(x, SymBool):
        return x
    if isinstance(x, SymInt):
        return x != 0
    if isinstance(x, (StrVec, SymBytes)):
        n = x.length()
        return n != 0
    return interp.truth(x)


def _str_always(interp, args, kwargs):
    if not args:
        return ""
    x = args[0]
    if len(args) > 1 or kwargs:
        if isinstance(x, SymBytes):
            return x.decode(*args[1:], **kwargs)
        return str(*args, **kwargs)
    if isinstance(x, Sym):
        _used("str")
        return to_str(x)
    tx = type(x)
    if tx in _FAST:
        if contains_sym(x):
            _used("str")
            return opaque_text("str")
        return str(x)
    if isinstance(x, BaseException):
        if contains_sym(x.args):
            _used("str(exception)")
            if len(x.args) == 1 and isinstance(x.args[0], StrVec) and type(x).__str__ is BaseException.__str__:
                return x.args[0]
            return opaque_text("excstr")
    if interp.is_interp_class(tx) and not isinstance(x, type):
        d = interp._find_dunder(tx, "__str__")
        if d is not None and interp.interpretable(d):
            return interp.call_value(d, (x,), {})
        if d is None or d is object.__str__:
            d = interp._find_dunder(tx, "__repr__")
            if d is not None and interp.interpretable(d):
                return interp.call_value(d, (x,), {})
    return str(x)


def _repr_always(interp, args, kwargs):
    (x,) = args
    if isinstance(x, Sym) or (type(x) in _FAST and contains_sym(x)):
        _used("repr")
        return opaque_text("repr")
    tx = type(x)
    if isinstance(x, BaseException) and contains_sym(x.args):
        return opaque_text("repr")
    if tx not in _FAST and interp.is_interp_class(tx) and not isinstance(x, type):
        d = interp._find_dunder(tx, "__repr__")
        if d is not None and interp.interpretable(d):
            return interp.call_value(d, (x,), {})
    return repr(x)


def _hash_always(interp, args, kwargs):
    (x,) = args
    if isinstance(x, Sym) or (type(x) is tuple and contains_sym(x)):
        from .containers import hash_token
        _used("hash")
        return hash_token(x)
    tx = type(x)
    if tx not in _FAST and interp.is_interp_class(tx) and not isinstance(x, type):
        d = interp._find_dunder(tx, "__hash__")
        if d is not None and interp.interpretable(d):
            return interp.call_value(d, (x,), {})
    return hash(x)


@model("int")
def m_int(interp, x=0, base=10):
    if isinstance(x, SymInt):
        return x
    if isinstance(x, SymBool):
        return ite(x, 1, 0)
    if isinstance(x, StrVec):
        return str_to_int(x, base)
    if isinstance(x, SymBytes):
        return str_to_int(x.decode("ascii"), base)       # int(b"123") parses ASCII text
    if isinstance(x, SymReal):
        raise Unmodelled("int(real)")
    return int(x, base) if isinstance(x, str) else int(x)


@model("float")
def m_float(interp, x=0.0):
    if isinstance(x, SymReal):
        return x
    if isinstance(x, SymInt):
        return SymReal(z3.ToReal(x.term))
    raise Unmodelled("float() of %s" % type(x).__name__)


@model("min")
def m_min(interp, *args, **kw):
    if kw:
        raise Unmodelled("min with key/default on symbolic")
    if len(args) == 1:
        args = tuple(interp.iterate_to_list(args[0]))
    cur = args[0]
    for a in args[1:]:
        c = a < cur
        if isinstance(c, bool):
            cur = a if c else cur
        elif isinstance(cur, SymReal) or isinstance(a, SymReal):
            from .values import rterm
            cur = SymReal(z3.If(c.term, rterm(a), rterm(cur)))
        else:
            cur = mkint(z3.If(c.term, iterm(a), iterm(cur)))
    return cur


@model("max")
def m_max(interp, *args, **kw):
    if kw:
        raise Unmodelled("max with key/default on symbolic")
    if len(args) == 1:
        args = tuple(interp.iterate_to_list(args[0]))
    cur = args[0]
    for a in args[1:]:
        c = a > cur
        if isinstance(c, bool):
            cur = a if c else cur
        elif isinstance(cur, SymReal) or isinstance(a, SymReal):
            from .values import rterm
            cur = SymReal(z3.If(c.term, rterm(a), rterm(cur)))
        else:
            cur = mkint(z3.If(c.term, iterm(a), iterm(cur)))
    return cur


@model("sum")
def m_sum(interp, items, start=0):
    tot = start
    for x in interp.iterate_to_list(items):
        tot = tot + x
    return tot


@model("abs")
def m_abs(interp, x):
    return abs(x)


@model("bytes")
def m_bytes(interp, x=b"", *a):
    if isinstance(x, SymBytes):
        return x.with_kind("bytes")
    if isinstance(x, StrVec):
        return x.encode(*a)
    if isinstance(x, (list, tuple)):
        return SymBytes([BPart([iterm(v) for v in x])])
    raise Unmodelled("bytes(%s)" % type(x).__name__)


@model("bytearray")
def m_bytearray(interp, x=b"", *a):
    if isinstance(x, SymBytes):
        return x.with_kind("bytearray")
    raise Unmodelled("bytearray(%s)" % type(x).__name__)


@model("memoryview")
def m_memoryview(interp, x):
    if isinstance(x, SymBytes):
        return x.with_kind("memoryview")
    raise Unmodelled("memoryview(%s)" % type(x).__name__)


@model("range")
def m_range(interp, *args):
    eng = E.current()
    conc = []
    for a in args:
        if isinstance(a, SymInt):
            a = eng.concretize(a.term, -4096, 4096)
        conc.append(a)
    return range(*conc)


def _getattr_always(interp, args, kwargs):
    obj, name = args[0], args[1]
    if isinstance(name, StrVec):
        _used("getattr(symbolic name)")
        return symbolic_getattr(interp, obj, name, args[2:] if len(args) > 2 else None)
    if isinstance(obj, Sym):
        return getattr(*args)
    if len(args) > 2:
        try:
            return interp.getattr_(obj, name)
        except AttributeError:
            return args[2]
    return interp.getattr_(obj, name)


def candidate_attr_names(obj):
    names = set()
    if isinstance(obj, type):
        for k in obj.__mro__:
            names.update(k.__dict__.keys())
        for k in type(obj).__mro__:
            names.update(k.__dict__.keys())
    else:
        for k in type(obj).__mro__:
            names.update(k.__dict__.keys())
        d = getattr(obj, "__dict__", None)
        if isinstance(d, dict):
            names.update(d.keys())
        if isinstance(obj, types.ModuleType):
            names.update(obj.__dict__.keys())
    return sorted(n for n in names if isinstance(n, str))


def symbolic_getattr(interp, obj, name, default=None):
    """getattr with a symbolic name: fork over exactly the names python's lookup can find"""
    eng = E.current()
    cands = candidate_attr_names(obj)
    # prune by cheap feasibility: length
    conds = [bterm(name.eq(c)) for c in cands]
    none = z3.Not(z3.Or(*conds)) if conds else z3.BoolVal(True)
    i = eng.fork(conds + [none])
    if i == len(cands):
        ga = interp._find_dunder(type(obj), "__getattr__")
        if ga is not None:
            if interp.interpretable(ga):
                return interp.call_value(ga, (obj, name), {})
            raise Unmodelled("symbolic attribute name on an object with a native __getattr__")
        if default:
            return default[0]
        raise AttributeError("'%s' object has no attribute <symbolic>" % type(obj).__name__)
    try:
        return interp.getattr_(obj, cands[i])
    except AttributeError:
        if default:
            return default[0]
        raise


def _getattr_static_always(interp, args, kwargs):
    """inspect.getattr_static runs no code of the object: native on every candidate name"""
    import inspect
    obj, name = args[0], args[1]
    if isinstance(name, StrVec):
        _used("inspect.getattr_static(symbolic name)")
        eng = E.current()
        cands = candidate_attr_names(obj)
        conds = [bterm(name.eq(c)) for c in cands]
        none = z3.Not(z3.Or(*conds)) if conds else z3.BoolVal(True)
        i = eng.fork(conds + [none])
        if i == len(cands):
            if len(args) > 2:
                return args[2]
            raise AttributeError("<symbolic>")
        return inspect.getattr_static(obj, cands[i], *args[2:])
    return inspect.getattr_static(*args, **kwargs)


def _hasattr_always(interp, args, kwargs):
    obj, name = args
    try:
        _getattr_always(interp, (obj, name), {})
        return True
    except AttributeError:
        return False


def _setattr_always(interp, args, kwargs):
    obj, name, value = args
    if isinstance(name, Sym):
        raise Unmodelled("setattr with symbolic name")
    interp.setattr_(obj, name, value)


def _iter_always(interp, args, kwargs):
    if len(args) == 1:
        return interp.get_iter(args[0])
    return iter(*args)


def _next_always(interp, args, kwargs):
    if len(args) == 1:
        return interp.next_(args[0])
    try:
        return interp.next_(args[0])
    except StopIteration:
        return args[1]


def _list_always(interp, args, kwargs):
    if not args:
        return []
    return interp.iterate_to_list(args[0])


def _tuple_always(interp, args, kwargs):
    if not args:
        return ()
    return tuple(interp.iterate_to_list(args[0]))


def _set_always(interp, args, kwargs):
    if not args:
        return set()
    items = interp.iterate_to_list(args[0])
    if contains_sym(items):
        from .containers import SymSet
        _used("set(symbolic items)")
        return SymSet(items)
    return set(items)


def _frozenset_always(interp, args, kwargs):
    if not args:
        return frozenset()
    items = interp.iterate_to_list(args[0])
    if contains_sym(items):
        from .containers import SymSet
        return SymSet(items, frozen=True)
    return frozenset(items)


def _sorted_always(interp, args, kwargs):
    items = interp.iterate_to_list(args[0])
    if contains_sym(items) and len(items) > 1:
        raise Unmodelled("sorted() of symbolic items")
    key = kwargs.get("key")
    if key is not None:
        keyed = [(interp.call_value(key, (x,), {}), x) for x in items]
        if contains_sym([k for k, _ in keyed]) and len(items) > 1:
            raise Unmodelled("sorted() with symbolic keys")
        idx = sorted(range(len(keyed)), key=lambda i: keyed[i][0], reverse=kwargs.get("reverse", False))
        return [keyed[i][1] for i in idx]
    return sorted(items, reverse=kwargs.get("reverse", False))


def _any_always(interp, args, kwargs):
    for x in interp.iterate_to_list(args[0]):
        if interp.truth(x):
            return True
    return False


def _all_always(interp, args, kwargs):
    for x in interp.iterate_to_list(args[0]):
        if not interp.truth(x):
            return False
    return True


def _enumerate_always(interp, args, kwargs):
    items = interp.iterate_to_list(args[0])
    start = args[1] if len(args) > 1 else kwargs.get("start", 0)
    return iter([(start + i, x) for i, x in enumerate(items)])


def _zip_always(interp, args, kwargs):
    lists = [interp.iterate_to_list(a) for a in args]
    return iter(list(zip(*lists)))


def _map_always(interp, args, kwargs):
    f = args[0]
    lists = [interp.iterate_to_list(a) for a in args[1:]]
    return iter([interp.call_value(f, xs, {}) for xs in zip(*lists)])


def _filter_always(interp, args, kwargs):
    f, items = args
    out = []
    for x in interp.iterate_to_list(items):
        if interp.truth(x if f is None else interp.call_value(f, (x,), {})):
            out.append(x)
    return iter(out)


def _callable_always(interp, args, kwargs):
    (x,) = args
    if isinstance(x, Sym):
        return False
    return callable(x)


def _dict_always(interp, args, kwargs):
    if args and isinstance(args[0], Sym):
        from .containers import SymDict
        if isinstance(args[0], SymDict):
            return args[0].copy()
        raise Unmodelled("dict(symbolic)")
    if args and not isinstance(args[0], dict):
        items = interp.iterate_to_list(args[0])
        d = {}
        for kv in items:
            k, v = interp.iterate_to_list(kv)
            if isinstance(k, Sym):
                raise Unmodelled("dict() with symbolic key")
            d[k] = v
        d.update(kwargs)
        return d
    return dict(*args, **kwargs)


def _bytearray_always(interp, args, kwargs):
    """interpreted code gets a rope with bytearray semantics, so that symbolic chunks can be appended later"""
    if not args:
        return SymBytes([], "bytearray")
    x = args[0]
    if isinstance(x, SymBytes):
        return x.with_kind("bytearray")
    if isinstance(x, (bytes, bytearray, memoryview)):
        return SymBytes.lift(bytes(x)).with_kind("bytearray")
    if isinstance(x, Sym):
        raise Unmodelled("bytearray(%s)" % type(x).__name__)
    return SymBytes.lift(bytes(bytearray(*args, **kwargs))).with_kind("bytearray")


def _vars_always(interp, args, kwargs):
    return vars(*args)


# ---- struct -------------------------------------------------------------------------------------
_FMT_RE = re.compile(r"(\d*)([xcbB?hHiIlLqQsp])")
_SIZES = {"B": 1, "b": 1, "H": 2, "h": 2, "I": 4, "i": 4, "L": 4, "l": 4, "Q": 8, "q": 8, "x": 1, "c": 1, "?": 1}


def _parse_fmt(fmt):
    if isinstance(fmt, bytes):
        fmt = fmt.decode()
    order = "@"
    if fmt and fmt[0] in "@=<>!":
        order = fmt[0]
        fmt = fmt[1:]
    if order in "@":
        raise Unmodelled("struct native alignment")
    fields = []
    pos = 0
    fmt = fmt.replace(" ", "")
    while pos < len(fmt):
        m = _FMT_RE.match(fmt, pos)
        if not m:
            raise Unmodelled("struct format %r" % fmt)
        cnt = int(m.group(1)) if m.group(1) else None
        code = m.group(2)
        if code == "s":
            fields.append(("s", 1 if cnt is None else cnt))
        elif code == "x":
            fields.append(("x", 1 if cnt is None else cnt))
        else:
            for _ in range(1 if cnt is None else cnt):
                fields.append((code, _SIZES[code]))
        pos = m.end()
    return ("little" if order == "<" else "big"), fields


@model("struct.pack")
def m_struct_pack(interp, fmt, *vals):
    eng = E.current()
    order, fields = _parse_fmt(fmt)
    nvals = sum(1 for c, _ in fields if c != "x")
    if nvals != len(vals):
        raise struct.error("pack expected %d items for packing (got %d)" % (nvals, len(vals)))
    parts = []
    vi = 0
    for code, size in fields:
        if code == "x":
            parts.append(BPart([z3.IntVal(0)] * size))
            continue
        v = vals[vi]
        vi += 1
        if code == "s":
            if not isinstance(v, (bytes, bytearray, SymBytes)):
                raise struct.error("argument for 's' must be a bytes object")
            b = SymBytes.lift(v)
            ts = b.terms()[:size]
            ts = ts + [z3.IntVal(0)] * (size - len(ts))
            parts.append(BPart(ts))
        elif code in "BHILQ":
            if isinstance(v, (StrVec, SymBytes, SymReal, str, bytes, float)) or v is None:
                raise struct.error("required argument is not an integer")
            if isinstance(v, (SymBool, bool)):
                v = ite(v, 1, 0) if isinstance(v, SymBool) else int(v)
            if isinstance(v, int):
                if not (0 <= v < (1 << (8 * size))):
                    raise struct.error("'%s' format requires 0 <= number <= %d" % (code, (1 << (8 * size)) - 1))
                parts.append(BPart([z3.IntVal(x) for x in v.to_bytes(size, order)]))
            else:
                try:
                    parts.extend(int_to_bytes(v, size, order).parts)
                except OverflowError:
                    raise struct.error("'%s' format requires 0 <= number <= %d" % (code, (1 << (8 * size)) - 1))
        else:
            if isinstance(v, Sym):
                raise Unmodelled("struct.pack code %s with symbolic value" % code)
            parts.append(BPart([z3.IntVal(x) for x in struct.pack(("<" if order == "little" else ">") + code, v)]))
    from .sbytes import _merge
    return SymBytes(_merge(parts))


@model("struct.unpack")
def m_struct_unpack(interp, fmt, data):
    order, fields = _parse_fmt(fmt)
    total = sum(s for _, s in fields)
    b = SymBytes.lift(data)
    n = b.length()
    if isinstance(n, SymInt):
        if not (n == total):
            raise struct.error("unpack requires a buffer of %d bytes" % total)
    elif n != total:
        raise struct.error("unpack requires a buffer of %d bytes" % total)
    ts = b.slice(0, total).terms()
    out = []
    pos = 0
    for code, size in fields:
        seg = ts[pos:pos + size]
        pos += size
        if code == "x":
            continue
        if code == "s":
            out.append(_maybe_concrete_bytes(SymBytes([BPart(seg)])))
        elif code in "BHILQ":
            if order == "little":
                seg = list(reversed(seg))
            from .sbytes import terms_to_int
            out.append(terms_to_int(seg))
        else:
            raise Unmodelled("struct.unpack code %s" % code)
    return tuple(out)


def _maybe_concrete_bytes(b):
    if b.is_concrete():
        return b.concrete()
    return b


@model("int.from_bytes")
def m_from_bytes(interp, b, byteorder="big", **kw):
    return int_from_bytes(b, byteorder, kw.get("signed", False))


def mm_int_to_bytes(interp, self, args, kwargs):
    return int_to_bytes(self, *args, **kwargs)


# ---- zlib ---------------------------------------------------------------------------------------
class ZlibState:
    """per-path table of compressed streams:  stream name -> original SymBytes"""

    def __init__(self):
        self.table = {}
        self.n = 0
        self.nd = 0


def _zstate():
    eng = E.current()
    st = eng.memo.get("zlib")
    if st is None:
        st = eng.memo["zlib"] = ZlibState()
    return st


def _declare(eng, name, kind, obj):
    eng.inputs[name] = (kind, obj)
    eng.order.append(name)


@model("zlib.compress")
def m_compress(interp, data, level=-1, **kw):
    """contract: compress(x) is some byte string of length >= 1 from which decompress() recovers x"""
    st = _zstate()
    eng = E.current()
    st.n += 1
    name = "zlib%d" % st.n
    ln = z3.Int("%s.len" % name)
    src = SymBytes.lift(data)
    # deflate's worst case adds 5 bytes per 16 KiB block plus 11 bytes of framing: len+64 covers inputs < 160 KiB
    eng.add(z3.And(ln >= 1, ln <= iterm(src.length()) + 64))
    _declare(eng, "%s.len" % name, "int", SymInt(ln))
    st.table[name] = (SymBytes.lift(data).with_kind("bytes"), ln)
    return SymBytes.opaque(name, SymInt(ln))


@model("zlib.decompress")
def m_decompress(interp, data, *a, **kw):
    st = _zstate()
    eng = E.current()
    b = SymBytes.lift(data)
    from .sbytes import _merge
    parts = _merge(b.parts)
    if len(parts) == 1 and isinstance(parts[0], OPart) and parts[0].stream in st.table:
        orig, ln = st.table[parts[0].stream]
        whole = z3.And(iterm(parts[0].off) == 0, iterm(parts[0].ln) == ln)
        if eng.branch(whole):
            return orig
    # anything else: not something compress() produced -> error, or arbitrary bytes
    st.nd += 1
    okv = z3.Bool("zlibdec%d.ok" % st.nd)
    _declare(eng, "zlibdec%d.ok" % st.nd, "bool", SymBool(okv))
    if eng.branch(okv):
        ln = z3.Int("zlibdec%d.len" % st.nd)
        eng.add(z3.And(ln >= 0, ln <= 64))
        _declare(eng, "zlibdec%d.len" % st.nd, "int", SymInt(ln))
        return SymBytes.opaque("zlibdec%d" % st.nd, SymInt(ln))
    raise zlib.error("Error -3 while decompressing data: incorrect header check")


class ContractZlib:
    """native counterpart of the zlib model for replays: lengths/outcomes come from the witness"""

    def __init__(self, S):
        self.S = S
        self.n = 0
        self.nd = 0
        self.table = {}
        self.real_compress = zlib.compress
        self.real_decompress = zlib.decompress

    def compress(self, data, level=-1, **kw):
        from .sbytes import stream_content
        self.n += 1
        name = "zlib%d" % self.n
        ln = self.S.values.get(name + ".len")
        if ln is None:
            return self.real_compress(data, level)
        out = stream_content(name, int(ln))
        self.table[out] = bytes(data)
        return out

    def decompress(self, data, *a, **kw):
        from .sbytes import stream_content
        data = bytes(data)
        if data in self.table:
            return self.table[data]
        self.nd += 1
        ok = self.S.values.get("zlibdec%d.ok" % self.nd)
        if ok is None:
            return self.real_decompress(data, *a, **kw)
        if ok:
            return stream_content("zlibdec%d" % self.nd, int(self.S.values.get("zlibdec%d.len" % self.nd, 0)))
        raise zlib.error("Error -3 while decompressing data: incorrect header check")


# ---- logging & friends: empty bodies ------------------------------------------------------------
def _noop(interp, args, kwargs):
    return None


def _format_exception(interp, args, kwargs):
    return ["<traceback>\n"]


def _format_exc(interp, args, kwargs):
    return "<traceback>\n"


# ---- str / bytes / dict / list methods on concrete receivers with symbolic arguments ------------
def mm_str_method(name):
    def f(interp, self, args, kwargs):
        _used("str." + name)
        return getattr(StrVec.lift(self), name)(*args, **kwargs)
    return f


def mm_str_join(interp, self, args, kwargs):
    _used("str.join")
    items = interp.iterate_to_list(args[0])
    return StrVec.lift(self).join(items)


def mm_str_format(interp, self, args, kwargs):
    _used("str.format(symbolic) -> opaque text")
    return opaque_text("format")


def mm_str_eq(interp, self, args, kwargs):
    return sym_eq(self, args[0])


def mm_bytes_method(name):
    def f(interp, self, args, kwargs):
        _used("bytes." + name)
        return getattr(SymBytes.lift(self), name)(*args, **kwargs)
    return f


def mm_bytes_join(interp, self, args, kwargs):
    _used("bytes.join")
    items = interp.iterate_to_list(args[0])
    return SymBytes.lift(self).join(items)


def mm_bytearray_extend(interp, self, args, kwargs):
    raise Unmodelled("real bytearray.extend(symbolic): the bytearray must be created through the model")


def mm_dict_get(interp, self, args, kwargs):
    _used("dict.get(symbolic key)")
    key = args[0]
    default = args[1] if len(args) > 1 else None
    return interp.dict_lookup(self, key, default)


def mm_dict_contains(interp, self, args, kwargs):
    return interp.contains(self, args[0])


def mm_dict_pop(interp, self, args, kwargs):
    _used("dict.pop(symbolic key)")
    key = args[0]
    eng = E.current()
    keys = list(self.keys())
    conds = [bterm(sym_eq(key, k)) for k in keys]
    none = z3.Not(z3.Or(*conds)) if conds else z3.BoolVal(True)
    i = eng.fork(conds + [none])
    if i == len(keys):
        if len(args) > 1:
            return args[1]
        raise KeyError(key)
    return self.pop(keys[i])


def mm_list_index(interp, self, args, kwargs):
    for i, x in enumerate(self):
        if interp.truth(sym_eq(x, args[0])):
            return i
    raise ValueError("x not in list")


def mm_list_remove(interp, self, args, kwargs):
    for i, x in enumerate(self):
        if interp.truth(sym_eq(x, args[0])):
            del self[i]
            return None
    raise ValueError("list.remove(x): x not in list")


def mm_list_count(interp, self, args, kwargs):
    tot = 0
    for x in self:
        tot = tot + ite(sym_eq(x, args[0]), 1, 0)
    return tot


def mm_transparent(name):
    def f(interp, self, args, kwargs):
        return getattr(self, name)(*args, **kwargs)
    return f


def _dict_setitem(interp, d, args):
    key, value = args
    if isinstance(key, Sym):
        from .interp import _MISSING
        k = interp.dict_find_key(d, key)
        if k is _MISSING:
            k = interp.unique_key_value(key)
        if k is _MISSING:
            raise Unmodelled("storing under a new symbolic key in a real dict")
        key = k
    dict.__setitem__(d, key, value)


def _dict_delitem(interp, d, args):
    key = args[0]
    if isinstance(key, Sym):
        from .interp import _MISSING
        k = interp.dict_find_key(d, key)
        if k is _MISSING:
            raise KeyError(key)
        key = k
    dict.__delitem__(d, key)


def mm_dict_setdefault(interp, self, args, kwargs):
    if isinstance(args[0], Sym):
        from .interp import _MISSING
        k = interp.dict_find_key(self, args[0])
        if k is not _MISSING:
            return self[k]
        k = interp.unique_key_value(args[0])
        if k is _MISSING:
            raise Unmodelled("dict.setdefault with a new symbolic key")
        return self.setdefault(k, *args[1:])
    return self.setdefault(*args)


def mm_dict_update(interp, self, args, kwargs):
    for a in args:
        if isinstance(a, Sym):
            raise Unmodelled("dict.update(symbolic)")
        if contains_sym(list(a.keys()) if isinstance(a, dict) else [k for k, _ in a]):
            raise Unmodelled("dict.update with symbolic keys")
    return self.update(*args, **kwargs)


def _shape_only(f):
    """natives that only look at the type of their argument: safe with symbolic leaves"""
    def m(interp, args, kwargs):
        return f(*args, **kwargs)
    return m


def install(interp):
    import inspect
    for nm in ("isclass", "isfunction", "ismethod", "isgenerator", "isdatadescriptor", "ismethoddescriptor",
               "isbuiltin", "isroutine", "isgeneratorfunction", "iscoroutine", "isawaitable"):
        interp.models[getattr(inspect, nm)] = _shape_only(getattr(inspect, nm))
    interp.models[id] = _shape_only(id)
    import json

    def _json_unsupported(v):
        """the first member of the value tree that json.dumps refuses without a default hook, or None"""
        from .strings import StrVec
        from .values import SymInt, SymBool
        if v is None or isinstance(v, (str, int, float, bool, StrVec, SymInt, SymBool)):
            return None
        if isinstance(v, dict):
            for k, x in v.items():
                if not (k is None or isinstance(k, (str, int, float, bool, StrVec, SymInt, SymBool))):
                    return k
                r = _json_unsupported(x)
                if r is not None:
                    return r
            return None
        if isinstance(v, (list, tuple)):
            for x in v:
                r = _json_unsupported(x)
                if r is not None:
                    return r
            return None
        return v

    def m_json_dumps(interp_, args, kwargs):
        bad = _json_unsupported(args[0]) if args else None
        if bad is not None:
            if kwargs.get("default") is not None or kwargs.get("cls") is not None:
                raise Unmodelled("json.dumps of symbolic data with a default hook")
            tn = getattr(bad, "kind", None) if isinstance(bad, SymBytes) else None
            raise TypeError("Object of type %s is not JSON serializable" % (tn or type(bad).__name__))
        USED.add("json.dumps(symbolic) -> opaque text")
        return opaque_text("json", 8, [(0x20, 0x7E)])     # json.dumps output is ASCII (ensure_ascii)
    interp.models[json.dumps] = m_json_dumps
    import weakref
    interp.models[weakref.finalize] = _shape_only(weakref.finalize)     # only stores its arguments
    a = interp.always
    m = interp.models
    a[len] = _len_always
    a[bool] = _bool_always
    a[str] = _str_always
    a[repr] = _repr_always
    a[hash] = _hash_always
    a[getattr] = _getattr_always
    a[inspect.getattr_static] = _getattr_static_always
    a[hasattr] = _hasattr_always
    a[setattr] = _setattr_always
    a[iter] = _iter_always
    a[next] = _next_always
    a[list] = _list_always
    a[tuple] = _tuple_always
    a[set] = _set_always
    a[frozenset] = _frozenset_always
    a[sorted] = _sorted_always
    a[any] = _any_always
    a[all] = _all_always
    a[enumerate] = _enumerate_always
    a[zip] = _zip_always
    a[map] = _map_always
    a[filter] = _filter_always
    a[callable] = _callable_always
    a[dict] = _dict_always
    a[bytearray] = _bytearray_always
    m[isinstance] = m_isinstance
    m[type] = m_type
    m[int] = m_int
    m[float] = m_float
    m[min] = m_min
    m[max] = m_max
    m[sum] = m_sum
    m[abs] = m_abs
    m[bytes] = m_bytes
    m[bytearray] = m_bytearray
    m[memoryview] = m_memoryview
    m[range] = m_range
    m[struct.pack] = m_struct_pack
    m[struct.unpack] = m_struct_unpack
    m[int.from_bytes] = m_from_bytes
    m[zlib.compress] = m_compress
    m[zlib.decompress] = m_decompress
    # empty bodies
    for nm in ("debug", "info", "warning", "error", "exception", "critical", "log", "warn"):
        a[getattr(logging.Logger, nm)] = _noop
    a[warnings.warn] = _noop
    a[traceback.format_exception] = _format_exception
    a[traceback.format_exc] = _format_exc
    a[traceback.print_exc] = _noop
    a[print] = _noop
    mmods = interp.method_models
    for nm in ("startswith", "endswith", "find", "index", "count", "partition", "rpartition", "split", "rsplit", "replace",
               "strip", "lstrip", "rstrip", "__contains__", "__add__", "__eq__", "__ne__"):
        mmods[(str, nm)] = mm_str_method(nm)
    mmods[(str, "join")] = mm_str_join
    mmods[(str, "format")] = mm_str_format
    mmods[(str, "__mod__")] = lambda interp, self, args, kwargs: str_format_percent(self, args[0])
    for tp in (bytes, bytearray):
        for nm in ("startswith", "__add__", "__eq__", "__ne__"):
            mmods[(tp, nm)] = mm_bytes_method(nm)
        mmods[(tp, "join")] = mm_bytes_join
    mmods[(bytearray, "extend")] = mm_bytearray_extend
    # precompiled struct.Struct objects: same models as the module-level functions, with the object's format
    mmods[(struct.Struct, "pack")] = lambda interp, self, args, kwargs: m_struct_pack(interp, (self.format,) + tuple(args), {})
    mmods[(struct.Struct, "unpack")] = lambda interp, self, args, kwargs: m_struct_unpack(interp, (self.format,) + tuple(args), {})

    def _struct_unpack_from(interp, self, args, kwargs):
        buf = args[0]
        off = args[1] if len(args) > 1 else kwargs.get("offset", 0)
        return m_struct_unpack(interp, (self.format, SymBytes.lift(buf).slice(off, off + self.size)), {})
    mmods[(struct.Struct, "unpack_from")] = _struct_unpack_from
    mmods[(dict, "get")] = mm_dict_get
    mmods[(types.MappingProxyType, "get")] = mm_dict_get
    mmods[(types.MappingProxyType, "__contains__")] = mm_dict_contains
    mmods[(dict, "pop")] = mm_dict_pop
    mmods[(dict, "__contains__")] = mm_dict_contains
    mmods[(dict, "setdefault")] = mm_dict_setdefault
    mmods[(dict, "__setitem__")] = lambda interp, self, args, kwargs: _dict_setitem(interp, self, args)
    mmods[(dict, "__delitem__")] = lambda interp, self, args, kwargs: _dict_delitem(interp, self, args)
    mmods[(dict, "update")] = mm_dict_update
    mmods[(list, "index")] = mm_list_index
    mmods[(list, "remove")] = mm_list_remove
    mmods[(list, "count")] = mm_list_count
    for nm in ("append", "insert", "extend"):
        mmods[(list, nm)] = mm_transparent(nm)
    mmods[(int, "to_bytes")] = mm_int_to_bytes
