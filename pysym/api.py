"""The harness-facing API.  A harness is a function h(S, B) that runs in two modes:
  symbolic: S is a SymCtx, the harness and all Pyro5 code are executed by the meta-interpreter
  concrete: S is a ConcCtx built from a solver model; everything runs natively on CPython
All nondeterminism is drawn through S with stable names, so a model of a path condition is a replayable input."""
import z3
from . import engine as E
from .engine import PathEnd, Unmodelled, Inconclusive
from .values import (Sym, SymBool, SymInt, SymReal, And, Or, Not, Implies, Iff, ite, bterm, iterm, mkbool, mkint,
                     sym_eq, contains_sym)
from .strings import StrVec
from .sbytes import SymBytes, stream_content
from .containers import SymSet, SymDict, HashToken

__all__ = ["And", "Or", "Not", "Implies", "Iff", "ite", "sym_eq", "SymCtx", "ConcCtx", "concretize_value", "eq", "statement_lines"]


def eq(a, b):
    """structural equality usable in both modes"""
    return sym_eq(a, b)


def concretize_value(model, v, depth=0):
    """turn a (possibly symbolic) observation into a plain JSON-able python value under `model`"""
    if depth > 8:
        return "<deep>"
    if isinstance(v, SymBool):
        return bool(E.z3val(model, v.term))
    if isinstance(v, SymInt):
        return int(E.z3val(model, v.term))
    if isinstance(v, SymReal):
        return float(E.z3val(model, v.term))
    if isinstance(v, StrVec):
        return v.eval(model)
    if isinstance(v, SymBytes):
        return {"bytes": v.eval(model).hex()}
    if isinstance(v, SymSet):
        items = [concretize_value(model, x, depth + 1) for x in v.items]
        return {"set": sorted(items, key=repr)}
    if isinstance(v, SymDict):
        return {"dict": sorted(([concretize_value(model, k, depth + 1), concretize_value(model, x, depth + 1)] for k, x in v.pairs), key=repr)}
    if isinstance(v, HashToken):
        return {"hash_of": concretize_value(model, v.value, depth + 1)}
    if isinstance(v, Sym):
        return "<sym %s>" % type(v).__name__
    if isinstance(v, bool) or v is None or isinstance(v, (int, str)):
        return v
    if isinstance(v, float):
        return v
    if isinstance(v, (bytes, bytearray, memoryview)):
        return {"bytes": bytes(v).hex()}
    if isinstance(v, (list, tuple)):
        return [concretize_value(model, x, depth + 1) for x in v]
    if isinstance(v, (set, frozenset)):
        return {"set": sorted((concretize_value(model, x, depth + 1) for x in v), key=repr)}
    if isinstance(v, dict):
        return {"dict": sorted(([concretize_value(model, k, depth + 1), concretize_value(model, x, depth + 1)] for k, x in v.items()), key=repr)}
    if isinstance(v, BaseException):
        return {"exc": type(v).__name__}
    if isinstance(v, type):
        return {"type": v.__name__}
    return {"obj": type(v).__name__}


def statement_lines(fn):
    """source line numbers of the statements of a python function (nested functions excluded): the points at which
    S.preempting() can interrupt it"""
    import ast
    import inspect
    import textwrap
    fn = getattr(fn, "__func__", fn)
    tree = ast.parse(textwrap.dedent(inspect.getsource(fn))).body[0]
    off = fn.__code__.co_firstlineno - tree.lineno
    out = []

    def walk(stmts):
        for st in stmts:
            if isinstance(st, (ast.FunctionDef, ast.AsyncFunctionDef, ast.ClassDef)):
                continue
            out.append(st.lineno + off)
            for field in ("body", "orelse", "finalbody"):
                walk(getattr(st, field, []) or [])
            for h in getattr(st, "handlers", []) or []:
                walk(h.body)
    walk(tree.body)
    return sorted(set(out))


class _Preempt:
    """context manager: the first time `fn` is about to execute its statement on source line `lineno`, `action()` runs
    to completion (another thread's whole operation, scheduled at that point).  Symbolic mode: a statement hook of the
    interpreter; native mode: a line tracer on fn's code object.  Same preemption points in both modes."""

    def __init__(self, S, fn, lineno, action):
        self.S, self.fn, self.lineno, self.action = S, getattr(fn, "__func__", fn), lineno, action
        self.fired = False

    def __enter__(self):
        code = self.fn.__code__
        if self.S.symbolic:
            interp = self.S.interp
            self.prev = interp.stmt_hook

            def hook(node, env):
                if not self.fired and node.lineno == self.lineno and env.fn is not None and getattr(env.fn, "__code__", None) is code:
                    self.fired = True
                    interp.stmt_hook = self.prev
                    self.action()
            interp.stmt_hook = hook
        else:
            import sys
            self.prevtrace = sys.gettrace()

            def local(frame, event, arg):
                if event == "line" and not self.fired and frame.f_lineno == self.lineno:
                    self.fired = True
                    sys.settrace(self.prevtrace)
                    frame.f_trace = None
                    self.action()
                return local

            def glob(frame, event, arg):
                if frame.f_code is code and not self.fired:
                    return local
                return None
            sys.settrace(glob)
        return self

    def __exit__(self, *a):
        if self.S.symbolic:
            self.S.interp.stmt_hook = self.prev
        else:
            import sys
            sys.settrace(self.prevtrace)
        return False


class _Base:
    symbolic = False

    def preempting(self, fn, lineno, action):
        return _Preempt(self, fn, lineno, action)

    # helpers usable from harnesses in both modes
    And = staticmethod(And)
    Or = staticmethod(Or)
    Not = staticmethod(Not)
    Implies = staticmethod(Implies)

    def note(self, text):
        pass


class SymCtx(_Base):
    symbolic = True

    def __init__(self, engine, interp, known_active=()):
        self.eng = engine
        self.interp = interp
        self.known_active = set(known_active)
        self.observations = []
        self.knowns = []      # (label, term)

    # ---- inputs ------------------------------------------------------------------------------
    def _decl(self, name, kind, obj):
        if name in self.eng.inputs:
            raise RuntimeError("input %r declared twice" % name)
        self.eng.inputs[name] = (kind, obj)
        self.eng.order.append(name)

    def int(self, name, lo=None, hi=None):
        t = z3.Int(name)
        if lo is not None:
            self.eng.add(t >= lo)
        if hi is not None:
            self.eng.add(t <= hi)
        width = None
        if lo is not None and lo >= 0 and hi is not None:
            width = max(1, int(hi).bit_length())
        v = SymInt(t, width)
        self._decl(name, "int", v)
        return v

    def bool(self, name):
        v = SymBool(z3.Bool(name))
        self._decl(name, "bool", v)
        return v

    def real(self, name, lo=None):
        t = z3.Real(name)
        if lo is not None:
            self.eng.add(t >= lo)
        v = SymReal(t)
        self._decl(name, "real", v)
        return v

    def choice(self, name, options):
        """one of the (concrete) options; a case split recorded as an int input"""
        options = list(options)
        t = z3.Int(name)
        self.eng.add(z3.And(t >= 0, t < len(options)))
        self._decl(name, "int", SymInt(t))
        i = self.eng.fork([t == k for k in range(len(options))])
        return options[i]

    def flag(self, name):
        """a boolean decided by case split (returns a python bool)"""
        return self.choice(name, [False, True])

    def str(self, name, maxlen, minlen=0, alphabet=None, no_surrogates=True):
        v = StrVec.fresh(name, maxlen, minlen, alphabet, no_surrogates)
        self._decl(name, "str", v)
        return v

    def bytes(self, name, n, kind="bytes"):
        v = SymBytes.fresh(name, n, kind)
        self._decl(name, "bytes", v)
        return v

    def opaque(self, name, length, kind="bytes"):
        """opaque bytes of (possibly symbolic) length: a piece [0:length) of stream `name`"""
        v = SymBytes.opaque(name, length, 0, kind)
        self._decl(name, "opaque", v)
        return v

    def stream_piece(self, stream, off, length, kind="bytes"):
        """bytes [off:off+length) of the opaque stream `stream`"""
        return SymBytes.opaque(stream, length, off, kind)

    def stream_name(self, data, length):
        """name of the opaque stream if `data` is exactly stream[0:length], else None"""
        if not isinstance(data, SymBytes):
            return None
        from .sbytes import _merge, OPart
        parts = _merge(data.parts)
        if len(parts) != 1 or not isinstance(parts[0], OPart):
            return None
        p = parts[0]
        if self.eng.must_hold(z3.And(iterm(p.off) == 0, iterm(p.ln) == length)):
            return p.stream
        return None

    def run_in_thread(self, fn):
        """run fn() to completion on a helper thread that shares this path's engine (own thread-locals)"""
        import threading
        interp = self.interp
        eng = self.eng
        box = {}
        saved = (interp.exc_stack, interp.depth)

        def body():
            E.set_current(eng)
            interp.exc_stack = []
            interp.depth = 0
            try:
                interp.call_value(fn, (), {})
            except BaseException as x:
                box["exc"] = x
            finally:
                E.set_current(None)
        th = threading.Thread(target=body)
        th.start()
        th.join()
        interp.exc_stack, interp.depth = saved
        if "exc" in box:
            raise box["exc"]

    # ---- claims ------------------------------------------------------------------------------
    def assume(self, cond, why=""):
        if cond is True:
            return
        c = bterm(cond)
        self.eng.add(c)
        if why and why not in self.eng.res.assumes:
            self.eng.res.assumes.append(why)
        if not self.eng.feasible(z3.BoolVal(True)):
            raise PathEnd("assumption infeasible")

    def cover(self, label):
        self.eng.res.covers.add(label)

    def known(self, label, cond, checks=None):
        """declare the witness class of a known finding (only honoured when the label is listed in
        known_findings.json); `checks` restricts it to the named checks -- a violation of any other check on
        the same path is still reported"""
        self.knowns.append((label, bterm(cond) if not isinstance(cond, bool) else z3.BoolVal(cond), checks))

    def check(self, label, cond):
        eng = self.eng
        eng.res.obligations += 1
        eng.res.covers.add("check:" + label)
        if cond is True:
            eng.res.discharged += 1
            return
        c = z3.BoolVal(False) if cond is False else bterm(cond)
        r = eng._check(z3.Not(c))
        if r == z3.unsat:
            eng.second_opinion(label, z3.Not(c), "unsat")
            eng.res.discharged += 1
            return
        if r == z3.unknown:
            eng.res.status = "inconclusive"
            eng.res.notes.append("unknown on obligation %s" % label)
            raise Inconclusive(label)
        # violated on this path. split by known-finding classes
        active = [(l, t) for (l, t, cks) in self.knowns if l in self.known_active and (cks is None or label in cks)]
        new_model = None
        if active:
            r2 = eng._check(z3.Not(c), z3.Not(z3.Or(*[t for _, t in active])))
            if r2 == z3.sat:
                new_model = eng.solver.model()
            elif r2 == z3.unknown:
                eng.res.status = "inconclusive"
                raise Inconclusive(label)
            for l, t in active:
                if eng._check(z3.Not(c), t) == z3.sat:
                    w = self._witness(eng.solver.model())
                    eng.res.knowns.append({"label": l, "check": label, "witness": w})
        else:
            eng._check(z3.Not(c))
            new_model = eng.solver.model()
        if new_model is not None:
            eng.res.violations.append({"label": label, "witness": self._witness(new_model), "decisions": list(eng.trace)})
            eng.res.status = "violation"
        # continue: on the models of this path where the check holds, or -- if it fails on every model -- on the
        # path as it is, so that later checks on the same path are still evaluated
        if eng.feasible(c):
            eng.add(c)

    def _witness(self, model):
        w = {}
        for name in self.eng.order:
            kind, obj = self.eng.inputs[name]
            if kind == "opaque":
                ln = obj.length()
                w[name] = {"opaque_len": ln if isinstance(ln, int) else int(E.z3val(model, ln.term))}
            else:
                w[name] = concretize_value(model, obj)
        return w

    def observe(self, key, value):
        self.observations.append((key, value))

    def note(self, text):
        if text not in self.eng.res.notes:
            self.eng.res.notes.append(text)

    def must(self, cond):
        """True iff cond is implied on this path (no fork)"""
        if isinstance(cond, bool):
            return cond
        return self.eng.must_hold(bterm(cond))

    def concrete(self, x, lo=None, hi=None):
        """case-split a symbolic int into its feasible values on this path"""
        if isinstance(x, SymInt):
            return self.eng.concretize(x.term, lo, hi)
        return x

    def fresh_int(self, base, lo=None, hi=None):
        self.eng.fresh_n += 1
        return self.int("%s#%d" % (base, self.eng.fresh_n), lo, hi)


class ReplayFailure(Exception):
    pass


class ConcCtx(_Base):
    symbolic = False

    def __init__(self, values, strict=True):
        self.values = dict(values)
        self.failed = []
        self.observations = []
        self.covers = set()
        self.strict = strict
        self.assume_failed = False
        self.fresh_n = 0
        self.pieces = {}

    def _get(self, name, default):
        if name in self.values:
            return self.values[name]
        return default

    def int(self, name, lo=None, hi=None):
        v = self._get(name, lo if lo is not None else 0)
        return int(v)

    def bool(self, name):
        return bool(self._get(name, False))

    def real(self, name, lo=None):
        return float(self._get(name, lo if lo is not None else 0.0))

    def choice(self, name, options):
        options = list(options)
        return options[int(self._get(name, 0))]

    def flag(self, name):
        return self.choice(name, [False, True])

    def str(self, name, maxlen, minlen=0, alphabet=None, no_surrogates=True):
        return self._get(name, "")

    def bytes(self, name, n, kind="bytes"):
        v = self._get(name, None)
        b = bytes.fromhex(v["bytes"]) if isinstance(v, dict) else bytes(n)
        return {"bytes": bytes, "bytearray": bytearray, "memoryview": memoryview}[kind](b)

    def opaque(self, name, length, kind="bytes"):
        v = self._get(name, None)
        n = v["opaque_len"] if isinstance(v, dict) else int(length)
        b = stream_content(name, n)
        return {"bytes": bytes, "bytearray": bytearray, "memoryview": memoryview}[kind](b)

    def stream_piece(self, stream, off, length, kind="bytes"):
        b = stream_content(stream, off + length)[off:off + length]
        self.pieces[bytes(b)] = (stream, off, length)
        return {"bytes": bytes, "bytearray": bytearray, "memoryview": memoryview}[kind](b)

    def stream_name(self, data, length):
        if not isinstance(data, (bytes, bytearray, memoryview)):
            return None
        hit = self.pieces.get(bytes(data))
        if hit is None or hit[1] != 0 or hit[2] != length:
            return None
        return hit[0]

    def run_in_thread(self, fn):
        import threading
        box = {}

        def body():
            try:
                fn()
            except BaseException as x:
                box["exc"] = x
        th = threading.Thread(target=body)
        th.start()
        th.join()
        if "exc" in box:
            raise box["exc"]

    def assume(self, cond, why=""):
        if not cond:
            self.assume_failed = True
            raise PathEnd("assumption false in concrete replay")

    def cover(self, label):
        self.covers.add(label)

    def known(self, label, cond, checks=None):
        pass

    def check(self, label, cond):
        self.covers.add("check:" + label)
        if not cond:
            self.failed.append(label)

    def observe(self, key, value):
        self.observations.append((key, concretize_value(None, value)))

    def must(self, cond):
        return bool(cond)

    def concrete(self, x, lo=None, hi=None):
        return x

    def fresh_int(self, base, lo=None, hi=None):
        self.fresh_n += 1
        return self.int("%s#%d" % (base, self.fresh_n), lo, hi)
