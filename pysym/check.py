"""bin/check back end:  python -m pysym.check <property id> --tier quick|thorough [--replay path]"""
import os
import sys
import json
import time
import glob
import argparse
import importlib
import multiprocessing as mp

VERIF = os.path.dirname(os.path.dirname(os.path.abspath(__file__)))
sys.path.insert(0, VERIF)
OUT = os.environ.get("VERIF_OUT") or VERIF      # evidence/ and replays/ go here (seeded-change runs use a scratch dir)

from pysym import runner as R          # noqa: E402

EXIT_OK, EXIT_VIOLATION, EXIT_ERROR, EXIT_INCONCLUSIVE = 0, 1, 2, 3

# property id -> list of harness modules (E1) ; E2 properties are registered in symbmc
PROPERTY_MODULES = {}


def discover():
    for f in sorted(glob.glob(os.path.join(VERIF, "harness", "C*.py"))):
        base = os.path.basename(f)[:-3]
        pid = base.split("_")[0]
        PROPERTY_MODULES.setdefault(pid, []).append("harness." + base)


def load_known(pid):
    p = os.environ.get("VERIF_KNOWN") or os.path.join(VERIF, "known_findings.json")
    try:
        data = json.load(open(p))
    except FileNotFoundError:
        return {}
    return {k["label"]: k for k in data.get("known", []) if k["property"] == pid}


def main(argv=None):
    ap = argparse.ArgumentParser()
    ap.add_argument("pid")
    ap.add_argument("--tier", default=os.environ.get("VERIF_TIER", "quick"), choices=["quick", "thorough"])
    ap.add_argument("--replay")
    ap.add_argument("--only", help="run only the named spec")
    ap.add_argument("--nproc", type=int, default=int(os.environ.get("VERIF_NPROC", "0")) or None)
    ap.add_argument("--time-limit", type=float, default=None)
    args = ap.parse_args(argv)
    seed = int(os.environ.get("VERIF_SEED", "0") or 0)
    discover()
    pid = args.pid
    if args.replay:
        return replay(pid, args.replay)
    mods = PROPERTY_MODULES.get(pid)
    if not mods:
        print("no harness for", pid)
        return EXIT_ERROR
    t0 = time.time()
    known = load_known(pid)
    summaries = []
    extra = []
    specs = []
    for m in mods:
        mod = importlib.import_module(m)
        for s in getattr(mod, "SPECS", []):
            if args.only and s.name != args.only:
                continue
            specs.append(s)
        if hasattr(mod, "EXTRA"):
            extra.append(mod.EXTRA)
    ctx = mp.get_context("fork")
    nproc = args.nproc or min(16, os.cpu_count() or 4)
    pool = ctx.Pool(nproc, initializer=R._worker_init)
    try:
        for s in specs:
            lim = args.time_limit or s.bounds[args.tier].get("_time_limit")
            summ = R.explore(s, args.tier, seed=seed, nproc=nproc, known_active=tuple(known.keys()), time_limit_s=lim, pool=pool)
            summaries.append((s, summ))
            print("[%s/%s] paths=%d %s obligations=%d discharged=%d queries=%d solver=%.1fs wall=%.1fs validated=%d"
                  % (pid, s.name, summ.paths, summ.by_status, summ.obligations, summ.discharged, summ.queries,
                     summ.solver_s, summ.wall_s, summ.validated), flush=True)
    finally:
        pool.terminate()
        pool.join()
    extra_results = []
    for ex in extra:
        try:
            extra_results.append(ex(args.tier, seed))
        except Exception as x:       # a front end that cannot translate the tree under test: harness error, never a verdict
            import traceback
            traceback.print_exc()
            extra_results.append({"errors": ["%s: %s" % (type(x).__name__, x)]})
    return conclude(pid, args.tier, seed, summaries, known, time.time() - t0, extra_results)


def conclude(pid, tier, seed, summaries, known, wall, extra_results=()):
    code = EXIT_OK
    lines = []
    violations_confirmed = 0
    errors = []
    inconclusive = []
    os.makedirs(os.path.join(OUT, "replays"), exist_ok=True)
    os.makedirs(os.path.join(OUT, "evidence"), exist_ok=True)
    known_hit = {}
    nrep = 0
    native_seen = set()
    degraded = []
    for spec, summ in summaries:
        for e in summ.errors:
            if e.startswith("[error] Unmodelled:") and "solver disagreement" not in e:
                # a path of this tree runs into something no model covers: that path is not decided (DEGRADED), others are
                degraded.append("%s: path not explored, %s" % (spec.name, e.splitlines()[0][8:220]))
            else:
                errors.append("%s: %s" % (spec.name, e))
        if summ.by_status.get("inconclusive"):
            inconclusive.append("%s: %d inconclusive paths" % (spec.name, summ.by_status["inconclusive"]))
        if summ.incomplete:
            inconclusive.append("%s: %s" % (spec.name, summ.incomplete))
        if summ.missing_covers:
            lost = [e for e in summ.errors if e.startswith("[error] Unmodelled:") and "solver disagreement" not in e]
            if lost:
                # the labels are out of reach because paths of this tree ran into constructs no model covers: the part of the
                # claim behind them is not decided on this tree (DEGRADED); with every path explored it would be a vacuous check
                degraded.append("%s: cover labels not reached because %d path(s) left the modelled fragment: %s" % (spec.name, len(lost), summ.missing_covers))
            else:
                errors.append("%s: cover labels never reached (vacuity guard): %s" % (spec.name, summ.missing_covers))
        for vf in summ.validation_failures:
            why = str(vf.get("why"))
            wit = (vf.get("sample") or {}).get("witness")
            if why.startswith("native run failed checks") and wit is not None:
                # the solver-chosen witness of an explored path, run natively on the real code, fails an assertion that the
                # symbolic run of that path had discharged: the models do not capture this tree on that path, but the
                # failing execution is real and replayable -- it is a violation (re-run once more here, then reported)
                S, err = R.run_native(spec, tier, wit)
                bad = [c for c in S.failed]
                if bad and not err:
                    lab = bad[0]
                    if ("native:" + lab) in native_seen:
                        continue
                    native_seen.add("native:" + lab)
                    nrep += 1
                    path = os.path.join(OUT, "replays", "%s-%s-%d.json" % (pid, spec.name, nrep))
                    json.dump({"property": pid, "spec": spec.name, "module": spec.module, "tier": tier, "label": lab,
                               "witness": wit, "found_by": "native run of a solver-generated path witness"}, open(path, "w"), indent=1, default=str)
                    violations_confirmed += 1
                    lines.append("VIOLATION property=%s replay=%s" % (pid, path))
                    lines.append("  check '%s' fails in harness %s when the solver's witness of an explored path is run natively on the real code (failed natively: %s); "
                                 "the symbolic run of that path had not seen it (model imprecision on this tree)" % (lab, spec.name, bad))
                    continue
            degraded.append("%s: the models do not capture this tree on an explored path (%s); witness %s" % (spec.name, why[:200], json.dumps(wit, default=str)[:200]))
        for lab, k in summ.knowns.items():
            known_hit[lab] = k
        seen = set()
        for v in summ.violations:
            if v["label"] in seen:
                continue
            seen.add(v["label"])
            # replay natively before reporting
            S, err = R.run_native(spec, tier, v["witness"])
            nrep += 1
            path = os.path.join(OUT, "replays", "%s-%s-%d.json" % (pid, spec.name, nrep))
            json.dump({"property": pid, "spec": spec.name, "module": spec.module, "tier": tier, "label": v["label"],
                       "witness": v["witness"]}, open(path, "w"), indent=1, default=str)
            if v["label"] in S.failed or (S.failed and not err):
                violations_confirmed += 1
                lines.append("VIOLATION property=%s replay=%s" % (pid, path))
                lines.append("  check '%s' fails in harness %s; native replay confirms (failed natively: %s)" % (v["label"], spec.name, S.failed))
            elif err:
                errors.append("%s: counterexample for '%s' could not be replayed natively (err=%s); replay=%s" % (spec.name, v["label"], err, path))
            else:
                # the real code does not fail on the solver's witness: the counterexample is an artefact of a model that
                # does not fit this tree.  Not a violation, and not a proof either: reported as DEGRADED
                degraded.append("%s: a symbolic counterexample for '%s' does not reproduce on the real code (model imprecision on this tree); replay=%s"
                                % (spec.name, v["label"], path))
    for er in extra_results:
        lines.extend(er.get("lines", []))
        violations_confirmed += er.get("violations", 0)
        for e in er.get("errors", []):
            if "does not reproduce on the real" in e or e.startswith("TranslationError"):
                # the schedule model does not fit this tree (a counterexample that the real threads do not reproduce, or a
                # statement form the front end cannot translate): not a violation, not a proof -- DEGRADED
                degraded.append("symbmc: " + e.splitlines()[0][:300])
            else:
                errors.append(e)
        inconclusive.extend(er.get("inconclusive", []))
        known_hit.update(er.get("known_hit", {}))
    for lab, k in sorted(known_hit.items()):
        desc = known.get(lab, {}).get("what", lab)
        print("KNOWN-FINDING: property=%s %s [%s]" % (pid, desc, lab))
    for l in lines:
        print(l)
    if violations_confirmed:
        code = EXIT_VIOLATION
    elif errors:
        code = EXIT_ERROR
    elif inconclusive:
        code = EXIT_INCONCLUSIVE
    shown = set()
    for e in errors:
        key = e[:160]
        if key in shown or len(shown) >= 12:
            continue
        shown.add(key)
        print("HARNESS-ERROR:", e)
    for e in inconclusive[:20]:
        print("INCONCLUSIVE:", e)
    for er in extra_results:
        degraded.extend(er.get("degraded", []))
    degraded = sorted(set(degraded) | {"%s: %s" % (spec.name, n) for spec, summ in summaries for n in summ.notes if n.startswith("SAMPLED:")})
    for d in degraded[:12]:
        print("DEGRADED:", d, "-- this tree leaves the modelled fragment there; the all-values claim is not made for that part")
    write_evidence(pid, tier, seed, summaries, wall, violations_confirmed, errors, inconclusive, known_hit, extra_results, degraded)
    print("RESULT property=%s tier=%s exit=%d wall=%.1fs" % (pid, tier, code, wall))
    return code


def _shrink(o, limit=160):
    """long byte/str payloads inside evidence samples are abbreviated"""
    if isinstance(o, dict):
        return {k: _shrink(v, limit) for k, v in o.items()}
    if isinstance(o, (list, tuple)):
        return [_shrink(v, limit) for v in o[:40]]
    if isinstance(o, str) and len(o) > limit:
        return o[:limit] + "...(%d chars)" % len(o)
    return o


def write_evidence(pid, tier, seed, summaries, wall, nviol, errors, inconclusive, known_hit, extra_results=(), degraded=()):
    states = sum(s.paths for _, s in summaries)
    transitions = sum(s.decisions for _, s in summaries)
    samples = []
    encoded = {}
    models = set()
    assumes = set()
    per = []
    for spec, s in summaries:
        for smp in s.samples[:3]:
            samples.append(_shrink({"harness": spec.name, **smp}))
        encoded.update(s.encoded)
        models.update(s.models)
        assumes.update(s.assumes)
        per.append({"harness": spec.name, "what": spec.desc, "bounds": {k: v for k, v in s.bounds.items()},
                    "paths": s.paths, "path_status": s.by_status, "obligations": s.obligations,
                    "discharged": s.discharged, "solver_queries": s.queries, "solver_s": round(s.solver_s, 2),
                    "wall_s": round(s.wall_s, 2), "cover_labels_reached": sorted(s.covers),
                    "unwinding_hits": s.unwind_hits, "solver_unknowns": s.unknowns,
                    "queries_rechecked_with_cvc5": s.xchecked, "cvc5_agrees": s.xagree, "cvc5_timeout_or_unknown": s.xunknown,
                    "paths_validated_natively": s.validated, "notes": sorted(s.notes)})
    cov = {
        "states": max(states, 0), "transitions": max(transitions, 0),
        "traces_validated_against_impl": sum(s.validated for _, s in summaries),
        "samples": samples or [{"note": "no sample recorded"}],
        "obligations": sum(s.obligations for _, s in summaries),
        "discharged": sum(s.discharged for _, s in summaries),
        "solver_queries": sum(s.queries for _, s in summaries),
        "solver_s": round(sum(s.solver_s for _, s in summaries), 2),
        "functions_encoded": {k: v for k, v in sorted(encoded.items()) if k.startswith("Pyro5.")},
        "harness_functions": sorted(k for k in encoded if not k.startswith("Pyro5.")),
        "environment_models_used": sorted(models),
        "harnesses": per,
        "known_findings_hit": sorted(known_hit.keys()),
        "harness_errors": errors[:10], "inconclusive": inconclusive[:10],
        "degraded": list(degraded)[:20],
        "explanation": "states = symbolic paths explored (each path = one run of the real source under the meta-"
                       "interpreter with a solver-checked path condition); transitions = branch decisions; every "
                       "obligation is a solver query path_condition AND NOT(property) that must be unsat",
        "exhaustive": not inconclusive and not errors and not degraded,
    }
    for er in extra_results:
        for k, v in er.get("coverage", {}).items():
            if k in ("states", "transitions", "traces_validated_against_impl", "obligations", "discharged"):
                cov[k] = cov.get(k, 0) + v
            elif k == "samples":
                cov["samples"] = (cov["samples"] + v)[:12]
            else:
                cov[k] = v
        assumes.update(er.get("assumptions", []))
    ev = {"property_id": pid, "tier": tier, "seed": seed, "level": "model_checking", "coverage": cov,
          "assumptions": sorted(assumes) + ["z3 %s is trusted as decision procedure" % _z3v(),
                                            "environment models listed under coverage.environment_models_used",
                                            "bounds listed per harness under coverage.harnesses[].bounds"],
          "wall_s": round(wall, 2), "violations": nviol}
    if cov["states"] < 1:
        cov["states"] = 1
    if cov["transitions"] < 1:
        cov["transitions"] = 1
    p = os.path.join(OUT, "evidence", "%s.json" % pid)
    json.dump(ev, open(p, "w"), indent=1, default=str)


def _z3v():
    import z3
    return z3.get_version_string()


def replay(pid, path):
    rec = json.load(open(path))
    if rec.get("engine") == "symbmc":
        from symbmc import replay as RP
        return RP.replay_file(path)
    mod = importlib.import_module(rec["module"])
    spec = [s for s in mod.SPECS if s.name == rec["spec"]][0]
    S, err = R.run_native(spec, rec["tier"], rec["witness"])
    print("native replay of %s: failed checks=%s error=%s" % (path, S.failed, err))
    if S.failed:
        print("VIOLATION property=%s replay=%s" % (pid, path))
        return EXIT_VIOLATION
    return EXIT_OK


if __name__ == "__main__":
    try:
        rc = main()
    except SystemExit:
        raise
    except BaseException as x:      # an unexpected failure of the machinery is a harness error (2), never exit code 1
        import traceback
        traceback.print_exc()
        print("HARNESS-ERROR: %s: %s" % (type(x).__name__, x))
        rc = EXIT_ERROR
    sys.exit(rc)
