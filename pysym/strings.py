"""StrVec: a string as (length n, code point terms).  n may be symbolic (0 <= n <= capacity)."""
import z3
from . import engine as E
from .engine import Unmodelled
from .values import Sym, SymInt, SymBool, mkbool, mkint, iterm, And, Or, Not
from . import charclass as CC


def _ct(c):
    return z3.IntVal(c) if isinstance(c, int) else c


class StrVec(Sym):
    __slots__ = ("n", "chars")

    def __init__(self, n, chars):
        self.n = n                    # int or SymInt
        self.chars = list(chars)      # z3 Int terms, capacity = len(chars)
        if isinstance(n, int):
            self.chars = self.chars[:n]

    # ---- construction ------------------------------------------------------------------------
    @staticmethod
    def lift(x):
        if isinstance(x, StrVec):
            return x
        if isinstance(x, str):
            return StrVec(len(x), [z3.IntVal(ord(c)) for c in x])
        raise Unmodelled("StrVec.lift(%r)" % type(x))

    @staticmethod
    def fresh(name, maxlen, minlen=0, alphabet=None, no_surrogates=True):
        eng = E.current()
        chars = [z3.Int("%s.c%d" % (name, i)) for i in range(maxlen)]
        if minlen == maxlen:
            n = maxlen
        else:
            nt = z3.Int("%s.len" % name)
            eng.add(z3.And(nt >= minlen, nt <= maxlen))
            n = SymInt(nt)
        for c in chars:
            if alphabet is None:
                if no_surrogates:
                    eng.add(z3.Or(z3.And(c >= 0, c < 0xD800), z3.And(c > 0xDFFF, c <= 0x10FFFF)))
                else:
                    eng.add(z3.And(c >= 0, c <= 0x10FFFF))
            else:
                eng.add(CC.in_ranges(c, alphabet))
        return StrVec(n, chars)

    def _short(self):
        if self.is_concrete():
            return repr(self.concrete())
        return "n=%s cap=%d" % (self.n if isinstance(self.n, int) else "sym", len(self.chars))

    __hash__ = Sym.__hash__

    # ---- basics ------------------------------------------------------------------------------
    def nterm(self):
        return iterm(self.n)

    def cap(self):
        return len(self.chars)

    def is_concrete(self):
        return isinstance(self.n, int) and all(z3.is_int_value(c) for c in self.chars[:self.n])

    def concrete(self):
        return "".join(chr(c.as_long()) for c in self.chars[:self.n])

    def maybe_concrete(self):
        """python str if fully concrete else self"""
        if self.is_concrete():
            return self.concrete()
        return self

    def fix_len(self):
        """make the length concrete on this path (case split); returns the int length"""
        if not isinstance(self.n, int):
            v = E.current().concretize(self.n.term, 0, len(self.chars))
            self.n = v
            self.chars = self.chars[:v]
        return self.n

    def length(self):
        return self.n

    def __len__(self):
        return self.fix_len()

    def __bool__(self):
        if isinstance(self.n, int):
            return self.n != 0
        return E.current().branch(self.n.term != 0)

    def eval(self, model):
        n = self.n if isinstance(self.n, int) else E.z3val(model, self.n.term)
        return "".join(chr(E.z3val(model, c)) for c in self.chars[:n])

    # ---- equality ----------------------------------------------------------------------------
    def eq(self, other):
        other = StrVec.lift(other)
        a, b = self, other
        if isinstance(a.n, int) and isinstance(b.n, int):
            if a.n != b.n:
                return False
            return mkbool(z3.And(*[x == y for x, y in zip(a.chars, b.chars)])) if a.n else True
        m = min(a.cap(), b.cap())
        na, nb = a.nterm(), b.nterm()
        conj = [na == nb, na <= m]
        for i in range(m):
            conj.append(z3.Implies(i < na, a.chars[i] == b.chars[i]))
        return mkbool(z3.And(*conj))

    def __eq__(self, other):
        if not isinstance(other, (str, StrVec)):
            return False
        return self.eq(other)

    def __ne__(self, other):
        return Not(self.__eq__(other))

    def _lex(self, other, strict):
        raise Unmodelled("ordering of symbolic strings")

    __lt__ = __le__ = __gt__ = __ge__ = lambda self, o: self._lex(o, True)

    # ---- indexing / slicing ------------------------------------------------------------------
    def char(self, i):
        return StrVec(1, [self.chars[i]])

    def __getitem__(self, idx):
        if isinstance(idx, slice):
            return self.slice(idx.start, idx.stop, idx.step)
        if isinstance(idx, SymInt):
            idx = E.current().concretize(idx.term, -len(self.chars), len(self.chars))
        if not isinstance(idx, int):
            raise TypeError("string indices must be integers")
        if idx < 0:
            n = self.fix_len()
            idx += n
            if idx < 0:
                raise IndexError("string index out of range")
        if isinstance(self.n, int):
            if idx >= self.n:
                raise IndexError("string index out of range")
        else:
            if idx >= len(self.chars) or not E.current().branch(self.n.term > idx):
                raise IndexError("string index out of range")
        return self.char(idx)

    def slice(self, start, stop, step=None):
        eng = E.current()
        if step not in (None, 1):
            n = self.fix_len()
            return StrVec.from_terms(self.chars[:n][slice(_cint(start), _cint(stop), step)])
        if isinstance(start, SymInt):
            start = eng.concretize(start.term, -self.cap(), self.cap())
        if isinstance(stop, SymInt):
            stop = eng.concretize(stop.term, -self.cap(), self.cap())
        if (start is not None and start < 0) or (stop is not None and stop < 0) or isinstance(self.n, int):
            n = self.fix_len()
            return StrVec.from_terms(self.chars[:n][start:stop])
        s = 0 if start is None else start
        e = self.cap() if stop is None else min(stop, self.cap())
        if e <= s:
            return StrVec(0, [])
        # new length = clamp(min(n, e) - s, 0)
        nt = self.n.term
        ln = z3.If(nt >= e, z3.IntVal(e - s), z3.If(nt > s, nt - s, z3.IntVal(0)))
        return StrVec(mkint(ln), self.chars[s:e])

    @staticmethod
    def from_terms(terms):
        return StrVec(len(terms), terms)

    def __iter__(self):
        n = self.fix_len()
        for i in range(n):
            yield self.char(i)

    # ---- searching ---------------------------------------------------------------------------
    def _match_at(self, p, sub):
        """z3 bool: sub (StrVec with concrete length) occurs at concrete position p"""
        k = sub.n
        if p + k > self.cap():
            return z3.BoolVal(False)
        conj = [self.nterm() >= p + k]
        for j in range(k):
            conj.append(self.chars[p + j] == sub.chars[j])
        return z3.And(*conj)

    def contains(self, sub):
        sub = StrVec.lift(sub)
        k = sub.fix_len()
        if k == 0:
            return True
        return mkbool(z3.Or(*[self._match_at(p, sub) for p in range(0, self.cap() - k + 1)]) if self.cap() >= k else z3.BoolVal(False))

    def __contains__(self, sub):
        if not isinstance(sub, (str, StrVec)):
            raise TypeError("'in <string>' requires string as left operand")
        return self.contains(sub)   # python coerces with bool() -> forks

    def find(self, sub, start=0):
        sub = StrVec.lift(sub)
        k = sub.fix_len()
        eng = E.current()
        for p in range(start, self.cap() - k + 1):
            if eng.branch(self._match_at(p, sub)):
                return p
        return -1

    def index(self, sub, start=0):
        r = self.find(sub, start)
        if r < 0:
            raise ValueError("substring not found")
        return r

    def count(self, sub):
        sub = StrVec.lift(sub)
        k = sub.fix_len()
        if k == 0:
            raise Unmodelled("count of empty string")
        cnt = 0
        p = 0
        while True:
            q = self.find(sub, p)
            if q < 0:
                return cnt
            cnt += 1
            p = q + k

    def startswith(self, prefix, start=0):
        if isinstance(prefix, tuple):
            return Or(*[self.startswith(p, start) for p in prefix])
        prefix = StrVec.lift(prefix)
        k = prefix.fix_len()
        return mkbool(self._match_at(start, prefix))

    def endswith(self, suffix):
        if isinstance(suffix, tuple):
            return Or(*[self.endswith(p) for p in suffix])
        suffix = StrVec.lift(suffix)
        k = suffix.fix_len()
        if isinstance(self.n, int):
            if self.n < k:
                return False
            return mkbool(self._match_at(self.n - k, suffix))
        alts = []
        for p in range(0, self.cap() - k + 1):
            alts.append(z3.And(self.n.term == p + k, self._match_at(p, suffix)))
        return mkbool(z3.Or(*alts)) if alts else False

    def partition(self, sep):
        sep = StrVec.lift(sep)
        k = sep.fix_len()
        p = self.find(sep)
        if p < 0:
            return (self, "", "")
        return (StrVec.from_terms(self.chars[:p]).maybe_concrete(), sep.maybe_concrete(), self.slice(p + k, None).maybe_concrete())

    def rpartition(self, sep):
        sep = StrVec.lift(sep)
        k = sep.fix_len()
        n = self.fix_len()
        eng = E.current()
        for p in range(n - k, -1, -1):
            if eng.branch(self._match_at(p, sep)):
                return (StrVec.from_terms(self.chars[:p]).maybe_concrete(), sep.maybe_concrete(), StrVec.from_terms(self.chars[p + k:n]).maybe_concrete())
        return ("", "", self)

    def split(self, sep=None, maxsplit=-1):
        if sep is None:
            return self._split_ws(maxsplit)
        sep = StrVec.lift(sep)
        k = sep.fix_len()
        if k == 0:
            raise ValueError("empty separator")
        out = []
        rest = self
        while maxsplit != 0:
            p = rest.find(sep)
            if p < 0:
                break
            out.append(StrVec.from_terms(rest.chars[:p]).maybe_concrete())
            rest = rest.slice(p + k, None)
            maxsplit -= 1
        out.append(rest.maybe_concrete() if isinstance(rest, StrVec) else rest)
        return out

    def rsplit(self, sep=None, maxsplit=-1):
        if maxsplit == -1:
            return self.split(sep)
        if sep is None:
            raise Unmodelled("rsplit(None, maxsplit)")
        out = []
        rest = self
        while maxsplit != 0:
            head, mid, tail = StrVec.lift(rest).rpartition(sep)
            if isinstance(mid, str) and mid == "" and not isinstance(mid, StrVec):
                break
            out.insert(0, tail)
            rest = head
            maxsplit -= 1
        out.insert(0, rest.maybe_concrete() if isinstance(rest, StrVec) else rest)
        return out

    def _split_ws(self, maxsplit):
        n = self.fix_len()
        eng = E.current()
        out = []
        cur = []
        incur = False
        for i in range(n):
            if eng.branch(CC.in_ranges(self.chars[i], CC.SPACE)):
                if incur:
                    out.append(StrVec.from_terms(cur).maybe_concrete())
                    cur = []
                    incur = False
            else:
                cur.append(self.chars[i])
                incur = True
        if incur:
            out.append(StrVec.from_terms(cur).maybe_concrete())
        if maxsplit != -1:
            raise Unmodelled("split(None, maxsplit)")
        return out

    # ---- transformations ---------------------------------------------------------------------
    def _class_or_set(self, chars):
        if chars is None:
            return lambda c: CC.in_ranges(c, CC.SPACE)
        if chars is CC.INTSPACE:
            return lambda c: CC.in_ranges(c, CC.INTSPACE)
        chars = StrVec.lift(chars)
        k = chars.fix_len()
        return lambda c: z3.Or(*[c == x for x in chars.chars[:k]]) if k else z3.BoolVal(False)

    def strip(self, chars=None):
        return self.lstrip(chars).rstrip(chars)

    def lstrip(self, chars=None):
        pred = self._class_or_set(chars)
        eng = E.current()
        i = 0
        while i < self.cap():
            if eng.branch(z3.And(self.nterm() > i, pred(self.chars[i]))):
                i += 1
            else:
                break
        return self.slice(i, None) if i else self

    def rstrip(self, chars=None):
        pred = self._class_or_set(chars)
        eng = E.current()
        n = self.fix_len()
        while n > 0 and eng.branch(pred(self.chars[n - 1])):
            n -= 1
        return StrVec.from_terms(self.chars[:n])

    def _casemap(self, lo, hi, delta, what):
        eng = E.current()
        out = []
        for i, c in enumerate(self.chars):
            guard = z3.Implies(self.nterm() > i, c < 128)
            if not eng.must_hold(guard):
                raise Unmodelled("%s() of a string that may hold non-ASCII characters" % what)
            out.append(z3.simplify(z3.If(z3.And(c >= lo, c <= hi), c + delta, c)))
        return StrVec(self.n, out)

    def upper(self):
        return self._casemap(97, 122, -32, "upper")

    def lower(self):
        return self._casemap(65, 90, 32, "lower")

    def __add__(self, other):
        if not isinstance(other, (str, StrVec)):
            return NotImplemented
        other = StrVec.lift(other)
        if isinstance(other.n, int) and other.n == 0:
            return self
        n = self.fix_len()
        return StrVec(mkint(n + other.nterm()) if not isinstance(other.n, int) else n + other.n, self.chars[:n] + other.chars)

    def __radd__(self, other):
        if not isinstance(other, (str, StrVec)):
            return NotImplemented
        return StrVec.lift(other).__add__(self)

    def __mul__(self, k):
        if isinstance(k, int):
            n = self.fix_len()
            return StrVec.from_terms(self.chars[:n] * k)
        raise Unmodelled("str * symbolic")

    def join(self, items):
        items = list(items)
        out = None
        for i, it in enumerate(items):
            if not isinstance(it, (str, StrVec)):
                raise TypeError("sequence item %d: expected str instance" % i)
            it = StrVec.lift(it)
            if out is None:
                out = it
            else:
                out = out + self + it
        return out if out is not None else ""

    def replace(self, old, new, count=-1):
        old = StrVec.lift(old)
        new = StrVec.lift(new)
        parts = self.split(old, count)
        return new.join(parts)

    def encode(self, encoding="utf-8", errors="strict"):
        from .sbytes import SymBytes, BPart
        enc = encoding.lower().replace("-", "").replace("_", "") if isinstance(encoding, str) else encoding
        eng = E.current()
        n = self.fix_len()
        if enc == "ascii":
            for i in range(n):
                if not eng.branch(self.chars[i] < 128):
                    raise UnicodeEncodeError("ascii", "?", i, i + 1, "ordinal not in range(128)")
            return SymBytes([BPart(list(self.chars[:n]))])
        if enc in ("utf8",):
            out = []
            for i in range(n):
                c = self.chars[i]
                k = eng.fork([c < 0x80, z3.And(c >= 0x80, c < 0x800),
                              z3.And(c >= 0x800, c < 0x10000, z3.Or(c < 0xD800, c > 0xDFFF)),
                              z3.And(c >= 0xD800, c <= 0xDFFF), c >= 0x10000])
                if k == 0:
                    out.append(c)
                elif k == 3:
                    raise UnicodeEncodeError("utf-8", "?", i, i + 1, "surrogates not allowed")
                else:
                    nb = {1: 2, 2: 3, 4: 4}[k]
                    vs = [eng.fresh("u8", "int") for _ in range(nb)]
                    lead = {2: 0xC0, 3: 0xE0, 4: 0xF0}[nb]
                    eng.add(z3.And(vs[0] >= 0, vs[0] < (1 << (7 - nb))))
                    for v in vs[1:]:
                        eng.add(z3.And(v >= 0, v < 64))
                    tot = vs[0]
                    for v in vs[1:]:
                        tot = tot * 64 + v
                    eng.add(tot == c)
                    out.append(z3.simplify(vs[0] + lead))
                    for v in vs[1:]:
                        out.append(z3.simplify(v + 0x80))
            return SymBytes([BPart(out)])
        raise Unmodelled("encode(%r)" % (encoding,))

    def isdigit(self):
        raise Unmodelled("isdigit")

    def isascii(self):
        n = self.nterm()
        return mkbool(z3.And(*[z3.Implies(n > i, c < 128) for i, c in enumerate(self.chars)]))

    def isspace(self):
        n = self.nterm()
        return mkbool(z3.And(n > 0, *[z3.Implies(n > i, CC.in_ranges(c, CC.SPACE)) for i, c in enumerate(self.chars)]))

    def format(self, *a, **k):
        raise Unmodelled("str.format on symbolic format string")

    def __mod__(self, args):
        raise Unmodelled("% on symbolic format string")

    def __rmod__(self, fmt):
        return NotImplemented


def _cint(x):
    if isinstance(x, SymInt):
        return E.current().concretize(x.term)
    return x


# ------------------------------------------------------------------------------------------------
# conversions between ints and strings

MAX_DIGITS = 24


def int_to_str(v):
    """canonical decimal text of a (symbolic) int: fork over sign and number of digits"""
    if isinstance(v, bool):
        v = int(v)
    if isinstance(v, int):
        return str(v)
    eng = E.current()
    t = v.term
    neg = eng.branch(t < 0)
    a = -t if neg else t
    conds = []
    for k in range(1, MAX_DIGITS + 1):
        lo = 0 if k == 1 else 10 ** (k - 1)
        conds.append(z3.And(a >= lo, a < 10 ** k))
    conds.append(a >= 10 ** MAX_DIGITS)
    k = eng.fork(conds) + 1
    if k > MAX_DIGITS:
        raise Unmodelled("decimal rendering of an integer with more than %d digits" % MAX_DIGITS)
    ds = [eng.fresh("dig", "int") for _ in range(k)]
    for d in ds:
        eng.add(z3.And(d >= 0, d <= 9))
    tot = z3.IntVal(0)
    for d in ds:
        tot = tot * 10 + d
    eng.add(tot == a)
    chars = [z3.simplify(d + 48) for d in ds]
    if neg:
        chars = [z3.IntVal(45)] + chars
    return StrVec.from_terms(chars).maybe_concrete()


def str_to_int(s, base=10):
    """model of int(str): optional surrounding whitespace, sign, decimal digits (any Unicode Nd) with single
    underscores between digits."""
    if base != 10:
        raise Unmodelled("int(str, base)")
    eng = E.current()
    s = StrVec.lift(s).strip(CC.INTSPACE)
    n = s.fix_len()

    def bad():
        raise ValueError("invalid literal for int() with base 10")
    if n == 0:
        bad()
    i = 0
    sign = 1
    k = eng.fork([s.chars[0] == 43, s.chars[0] == 45, z3.And(s.chars[0] != 43, s.chars[0] != 45)])
    if k == 0:
        i = 1
    elif k == 1:
        i = 1
        sign = -1
    if i >= n:
        bad()
    total = z3.IntVal(0)
    prev_digit = False
    while i < n:
        c = s.chars[i]
        if eng.branch(CC.in_ranges(c, CC.DIGIT)):
            total = total * 10 + digit_term(c)
            prev_digit = True
        elif eng.branch(c == 95):
            if not prev_digit or i == n - 1:
                bad()
            prev_digit = False
        else:
            bad()
        i += 1
    if not prev_digit:
        bad()
    return mkint(total * sign)


def digit_term(c):
    """value of a decimal digit code point as a fresh 0..9 variable linked to the character (keeps the
    arithmetic over the number free of nested if-then-else chains)"""
    eng = E.current()
    if z3.is_int_value(c):
        import unicodedata
        return z3.IntVal(unicodedata.decimal(chr(c.as_long())))
    if eng.must_hold(z3.And(c >= 48, c <= 57)):
        return c - 48
    d = eng.fresh("digit", "int")
    eng.add(z3.And(d >= 0, d <= 9))
    eng.add(z3.Or(*[z3.And(c >= b, c <= b + 9, d == c - b) for b in CC.DIGIT_BLOCKS]))
    return d


def str_format_percent(fmt, args):
    """fmt % args with a concrete format string and possibly symbolic arguments"""
    import re
    if not isinstance(args, tuple):
        args = (args,)
    out = ""
    pos = 0
    ai = 0
    for m in re.finditer(r"%(?:(-?\d*)(\.\d+)?([sdrxi%]))", fmt):
        out = out + fmt[pos:m.start()]
        pos = m.end()
        conv = m.group(3)
        if conv == "%":
            out = out + "%"
            continue
        a = args[ai]
        ai += 1
        if m.group(1) or m.group(2):
            if isinstance(a, Sym):
                raise Unmodelled("width/precision in % formatting of symbolic value")
            out = out + (m.group(0) % (a,))
            continue
        if conv in "di":
            if isinstance(a, (StrVec, str)) or a is None:
                raise TypeError("%d format: a real number is required")
            out = out + (int_to_str(a) if isinstance(a, Sym) else "%d" % a)
        elif conv == "s":
            out = out + to_str(a)
        elif conv == "r":
            if isinstance(a, Sym):
                out = out + opaque_text("repr")
            else:
                out = out + repr(a)
        else:
            if isinstance(a, Sym):
                raise Unmodelled("%x of symbolic")
            out = out + (("%" + conv) % a)
    out = out + fmt[pos:]
    if ai != len(args):
        raise TypeError("not all arguments converted during string formatting")
    return out


def to_str(a):
    """str(a) where a may be symbolic"""
    if isinstance(a, StrVec):
        return a
    if isinstance(a, (SymInt,)):
        return int_to_str(a)
    if isinstance(a, SymBool):
        return "True" if a else "False"
    if isinstance(a, Sym):
        return opaque_text("str")
    if isinstance(a, BaseException):
        from .values import contains_sym
        if contains_sym(a.args):
            return opaque_text("excstr")
    return str(a)


def opaque_text(tag="text", maxlen=6, alphabet=None):
    """an arbitrary short text (for messages whose content no oracle relies on)"""
    eng = E.current()
    eng.fresh_n += 1
    return StrVec.fresh("opaque.%s!%d" % (tag, eng.fresh_n), maxlen, 0, alphabet)
