"""C09 (race part): concurrent first calls on a 'single' class create exactly one instance.

CFG source: the real server.Daemon._getInstance (all branches are built; the session/percall branches are
unreachable for mode 'single' and are reported if they could be reached).  The nested helper createInstance is
abstracted as "one constructor/creator call that yields a fresh instance"."""
import ast
import time
import z3

from Pyro5 import server
from .machine import (Machine, Domain, Encoder, AV, A_bool, A_int, A_const, NONE, bv, BW, popcount, truthy, load_method,
                      TranslationError, Frame, dotted, UNTRANSLATED)


def build(T, NI):
    dom = Domain()
    dom.classes = {
        "Daemon": {"n": 1, "fields": {"create_single_instance_lock": ("lock", False), "_pyroInstances": ("obj", "InstMap")}},
        "InstMap": {"n": 1, "fields": {"slot": ("ref", "Instance")}},
        "Instance": {"n": NI, "fields": {}},
        "Clazz": {"n": 1, "fields": {"_pyroInstancing": ("value", AV("tuple", items=[A_const("single"), A_const(None)]))}},
        "Conn": {"n": 1, "fields": {}},
    }
    dom.exc_parents = {}
    dom.local_types = {"instance_mode": ("static", None), "instance_creator": ("static", None), "instance": ("ref", "Instance")}
    dom.inline[("Daemon", "_getInstance")] = load_method(server.Daemon, "_getInstance")

    def receiver_is(node, frame, cls):
        return False
    dom.receiver_is = receiver_is
    m = Machine(dom)
    m.declare_objects({})
    m.declare("ninst", "bv", bv(0))
    m.declare("overflow", "bool", z3.BoolVal(False))

    def map_get(ev, ctx, recv, args):
        return AV("ref", ctx.get(m.field_key("InstMap", 0, "slot")), "Instance")

    def map_set(ev, ctx, recv, args):
        ctx.set(m.field_key("InstMap", 0, "slot"), ev.coerce(args[1], "ref", "Instance").term)
        return NONE
    dom.methods[("InstMap", "get")] = map_get
    dom.methods[("InstMap", "__setitem__")] = map_set

    def create_instance(ev, ctx, args):
        idx = ctx.get("ninst")
        ctx.set("overflow", z3.Or(ctx.get("overflow"), idx == bv(NI)))
        ctx.set("ninst", z3.If(idx == bv(NI), idx, idx + bv(1)))
        return AV("ref", idx, "Instance")
    # the instance factory is abstracted whatever it is called and wherever it lives: a helper nested in _getInstance, a
    # (static) method of Daemon, or the class called directly
    fdef = dom.inline[("Daemon", "_getInstance")][0]
    for n in ast.walk(fdef):
        if isinstance(n, ast.FunctionDef) and n is not fdef:
            dom.functions[n.name] = create_instance
        if isinstance(n, ast.Call) and isinstance(n.func, ast.Attribute) and isinstance(n.func.value, ast.Name) and n.func.value.id == "self":
            nm = n.func.attr.lower().replace("_", "")
            if "create" in nm and "instance" in nm:
                dom.methods[("Daemon", n.func.attr)] = lambda ev, ctx, recv, args: create_instance(ev, ctx, args)
    dom.functions["createInstance"] = create_instance
    dom.functions["clazz"] = create_instance
    daemon = AV("obj", None, "Daemon")
    for ti in range(T):
        t = m.new_thread("caller%d" % ti)
        top = Frame(0, "harness.caller", daemon, {})
        end = m.add_node(t, "end", ast.Pass(), top, "harness.caller")
        res = m.local_key_typed(t, top, "result", ("ref", "Instance"))
        t.result_key = res
        t.entry = m.build_call(t, "Daemon", "_getInstance", daemon, [AV("obj", None, "Clazz"), AV("obj", None, "Conn")], end.idx, top,
                               retkey=res)
    m.finalize()
    return m, dom


def check(T=2, K=24, timeout_s=300):
    t0 = time.time()
    NI = T + 1
    m, dom = build(T, NI)
    enc = Encoder(m, {"KeyError": 2, "DaemonError": 3, "TypeError": 4})
    # the code has no loops: every node fires at most once, so K = number of nodes covers every complete schedule
    K = max(K, sum(len(t.nodes) for t in m.threads) + 2)
    s = z3.SolverFor("QF_BV")
    s.set("timeout", int(timeout_s * 1000))
    states, tids, nds = enc.unroll(K, None, None, s)
    NT = enc.nthreads
    bad = []
    for k, st in enumerate(states):
        conds = {"at-most-one-instance-is-ever-created": z3.ULE(st["ninst"], bv(1)),
                 "model-capacity": z3.Not(st["overflow"])}
        for ti in range(T):
            conds["caller%d-no-internal-error" % ti] = z3.ULT(st["caller%d.outcome" % ti], bv(2))
        done = z3.And(*[st["caller%d.outcome" % ti] == bv(1) for ti in range(T)])
        same = z3.And(*[st[m.threads[ti].result_key] == st[m.threads[0].result_key] for ti in range(1, T)])
        conds["all-callers-get-the-same-instance"] = z3.Implies(done, z3.And(same, st[m.threads[0].result_key] != bv(NI)))
        conds["no-deadlock"] = z3.BoolVal(True)
        for lab, c in conds.items():
            b = z3.Bool("viol!%d!%s" % (k, lab))
            s.add(b == z3.Not(c))
            bad.append((b, k, lab))
    for k in range(K):
        done = z3.And(*[states[k]["caller%d.outcome" % ti] != bv(0) for ti in range(T)])
        b = z3.Bool("dead!%d" % k)
        s.add(b == z3.And(tids[k] == bv(NT), z3.Not(done)))
        bad.append((b, k, "no-deadlock: every caller returns"))
    s.add(z3.Or(*[b for b, _, _ in bad]))
    r = s.check()
    out = {"result": str(r), "K": K, "threads": NT, "wall_s": time.time() - t0, "nodes": sum(len(t.nodes) for t in m.threads),
           "encoded": dict(m.encoded), "assertions": len(bad), "untranslated_nodes": {"%s:%d" % k: v for k, v in enc.untranslated.items()}}
    if r == z3.sat:
        mdl = s.model()
        hit = sorted((k, lab) for b, k, lab in bad if z3.is_true(mdl.eval(b)))
        k0, lab0 = hit[0]
        sched = []
        for k in range(min(K, k0 + 1)):
            ti = mdl.eval(tids[k], model_completion=True).as_long()
            if ti >= NT:
                sched.append(("-", None, None, None, None))
                continue
            t = m.threads[ti]
            pc = mdl.eval(states[k][t.name + ".pc"], model_completion=True).as_long()
            node = t.nodes[pc]
            sched.append((t.name, node.func, node.line, 0, node.kind))
        lines = sorted({n.line for t in m.threads for n in t.nodes if n.kind not in ("enter", "end", "set", "call", "jump") and n.func.startswith("Pyro5.")})
        out["violation"] = {"label": lab0, "step": k0, "schedule": sched, "model_lines": lines}
    # reachability: both callers can finish (vacuity guard)
    s2 = z3.SolverFor("QF_BV")
    st2, tids2, _ = Encoder(build(T, NI)[0], {"KeyError": 2, "DaemonError": 3, "TypeError": 4}).unroll(K, None, None, s2)
    s2.add(z3.And(*[st2[K]["caller%d.outcome" % ti] == bv(1) for ti in range(T)]))
    out["completion_reachable"] = str(s2.check())
    return out


def replay(T, schedule, label, model_lines):
    """run the schedule on a real Daemon with real threads, one source line at a time"""
    import sys
    import threading
    from .replay_pool import Gate
    from harness import rig
    from Pyro5.server import expose, behavior
    created = []

    @expose
    @behavior(instance_mode="single")
    class Single:
        def __init__(self):
            created.append(self)
    codes = {server.Daemon.__dict__["_getInstance"].__code__}
    gate = Gate(codes)
    daemon = rig.make_daemon()
    results = {}
    threads = {}
    for ti in range(T):
        def body(ti=ti):
            sys.settrace(gate.tracer)
            results[ti] = daemon._getInstance(Single, None)
        th = threading.Thread(target=body, daemon=True)
        th._vkey = "caller%d" % ti
        threads["caller%d" % ti] = th
    started = set()
    model_lines = set(model_lines)
    try:
        for (tname, func, line, nd, kind) in schedule:
            if tname in threads and tname not in started:
                threads[tname].start()
                started.add(tname)
            if tname == "-" or not func or not func.startswith("Pyro5.") or kind in ("enter", "end", "set"):
                continue
            for _ in range(6):
                at = gate.wait_paused(tname, 1.0)
                if at is None:
                    break
                if at == line:
                    gate.step(tname)
                    break
                if at in model_lines:
                    break
                gate.step(tname)
        gate.release_all()
        for th in threads.values():
            if th.ident is not None:
                th.join(1.0)
    finally:
        gate.release_all()
    return {"instances_created": len(created), "distinct_results": len({id(v) for v in results.values()}),
            "reproduced": len(created) > 1 or len({id(v) for v in results.values()}) > 1}
