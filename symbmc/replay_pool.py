"""Deterministic replay of a pool schedule on the REAL Pool/Worker objects with real threads: a sys.settrace gate
lets exactly one thread execute exactly one source line at a time, in the order the solver's model prescribes."""
import sys
import time
import threading

from Pyro5 import svr_threads, config


class Gate:
    def __init__(self, codes):
        self.codes = codes                 # set of code objects whose lines are gated
        self.cv = threading.Condition()
        self.paused = {}                   # thread key -> line it is about to execute
        self.grants = {}                   # thread key -> number of granted steps
        self.free_run = False
        self.keys = {}

    def key(self):
        th = threading.current_thread()
        return getattr(th, "_vkey", None)

    def tracer(self, frame, event, arg):
        if frame.f_code in self.codes:
            return self.local
        return None

    def local(self, frame, event, arg):
        if event == "line":
            k = self.key()
            if k is None or self.free_run:
                return self.local
            with self.cv:
                self.paused[k] = frame.f_lineno
                self.cv.notify_all()
                while self.grants.get(k, 0) == 0 and not self.free_run:
                    self.cv.wait(0.05)
                if not self.free_run:
                    self.grants[k] -= 1
                self.paused.pop(k, None)
        return self.local

    def wait_paused(self, k, timeout=3.0):
        end = time.time() + timeout
        with self.cv:
            while k not in self.paused:
                left = end - time.time()
                if left <= 0:
                    return None
                self.cv.wait(min(left, 0.05))
            return self.paused[k]

    def step(self, k):
        """let thread k execute the line it is paused at"""
        with self.cv:
            self.grants[k] = self.grants.get(k, 0) + 1
            self.paused.pop(k, None)
            self.cv.notify_all()
        # wait until the grant has been consumed
        end = time.time() + 3.0
        with self.cv:
            while self.grants.get(k, 0) > 0 and time.time() < end:
                self.cv.wait(0.02)

    def release_all(self):
        with self.cv:
            self.free_run = True
            self.cv.notify_all()


class ChoosySet(set):
    """set whose pop() returns the element the replay designates (python's choice is arbitrary)"""
    chooser = None

    def pop(self):
        if ChoosySet.chooser is not None:
            x = ChoosySet.chooser(self)
            if x is not None and x in self:
                self.discard(x)
                return x
        return set.pop(self)


def replay(MIN, SIZE, J, with_close, schedule, label, model_lines=()):
    """schedule: list of (thread name, func, line, nd).  Returns dict(reproduced=bool, detail=...)"""
    config.THREADPOOL_SIZE = SIZE
    config.THREADPOOL_SIZE_MIN = MIN
    codes = set()
    for cls, names in ((svr_threads.Pool, ("process", "notify_done", "close")),
                       (svr_threads.Worker, ("run", "process"))):
        for n in names:
            codes.add(cls.__dict__[n].__code__)
    gate = Gate(codes)
    workers = []
    orig_init = svr_threads.Worker.__init__

    def winit(self, pool):
        orig_init(self, pool)
        self._vkey = "worker%d" % len(workers)
        workers.append(self)
    svr_threads.Worker.__init__ = winit
    execs = [0] * J
    detail = {"steps": 0, "max_members": 0}

    close_done = threading.Event()
    late_starts = []

    def mkjob(j):
        def job():
            if close_done.is_set():
                late_starts.append(j)       # a job that starts after close() has returned
            execs[j] += 1
        return job

    def run_close():
        sys.settrace(gate.tracer)
        pool.close()
        close_done.set()
    jobs = [mkjob(j) for j in range(J)]
    refused = [False] * J
    accept_err = []
    threading.settrace(gate.tracer)
    pool = None
    try:
        pool = svr_threads.Pool()
        pool.idle = ChoosySet(pool.idle)
        pool.busy = ChoosySet(pool.busy)

        def accept():
            sys.settrace(gate.tracer)
            for j in range(J):
                try:
                    pool.process(jobs[j])
                except svr_threads.PoolError:       # no free workers, or the pool is being closed: turned away
                    refused[j] = True
                except Exception as x:
                    accept_err.append(x)
        acc = threading.Thread(target=accept, daemon=True)
        acc._vkey = "accept"
        closer = None
        started = {"accept": False, "closer": False}
        violated_during = False
        model_lines = set(model_lines)

        def ensure_started(tname):
            nonlocal closer
            if tname == "accept" and not started["accept"]:
                acc.start()
                started["accept"] = True
            if tname == "closer" and not started["closer"]:
                closer = threading.Thread(target=run_close, daemon=True)
                closer._vkey = "closer"
                closer.start()
                started["closer"] = True
        for (tname, func, line, nd, kind) in schedule:
            if tname and tname != "-":
                ensure_started(tname)
            if tname != "-" and func and func.startswith("Pyro5.") and kind in ("enter", "end", "set"):
                if tname == "accept" and not started["accept"]:
                    acc.start()
                    started["accept"] = True
                continue
            if tname == "-" or not func or not func.startswith("Pyro5."):
                # harness pseudo node: start the thread if needed
                if tname == "accept" and not started["accept"]:
                    acc.start()
                    started["accept"] = True
                if tname == "closer" and not started["closer"]:
                    closer = threading.Thread(target=run_close, daemon=True)
                    closer._vkey = "closer"
                    closer.start()
                    started["closer"] = True
                continue
            if tname == "accept" and not started["accept"]:
                acc.start()
                started["accept"] = True
            # designate the element a pop() in this step must return
            ChoosySet.chooser = (lambda nd: lambda s: workers[nd] if nd < len(workers) else None)(nd)
            # bring the thread to the line, then execute it
            ok = False
            seen = []
            for _ in range(6):
                at = gate.wait_paused(tname, 1.0)
                seen.append(at)
                if at is None:
                    break
                if at == line:
                    gate.step(tname)
                    ok = True
                    break
                if at in model_lines:
                    break              # the model has an extra pseudo step on this line; do not advance the thread
                gate.step(tname)       # a control-only line (try:, else:, ...) that python reports separately
            detail.setdefault("trace", []).append((tname, line, seen, ok))
            detail["steps"] += 1
            members = len(set(pool.idle) | set(pool.busy))
            detail["max_members"] = max(detail["max_members"], members)
            if not ok:
                # entry nodes (def lines) have no line event of their own
                continue
        time.sleep(0.05)
        detail["members_at_end_of_schedule"] = len(set(pool.idle) | set(pool.busy))
        detail["overlap"] = len(set(pool.idle) & set(pool.busy))
        gate.release_all()
        time.sleep(0.3)
        detail["execs"] = list(execs)
        detail["refused"] = list(refused)
        detail["accept_errors"] = [repr(x) for x in accept_err]
        detail["alive_workers"] = sum(1 for w in workers if w.is_alive())
        detail["jobs_started_after_close_returned"] = list(late_starts)
    finally:
        gate.release_all()
        threading.settrace(None)
        sys.settrace(None)
        svr_threads.Worker.__init__ = orig_init
        ChoosySet.chooser = None
        try:
            if pool is not None:
                pool.close()
        except Exception:
            pass
    rep = False
    if label.startswith("workers-bounded"):
        rep = detail["max_members"] > SIZE
    elif label.startswith("idle-and-busy"):
        rep = detail["overlap"] > 0
    elif "runs-at-most-once" in label:
        rep = any(e > 1 for e in detail["execs"])
    elif "refused-job" in label:
        rep = any(r and e > 0 for r, e in zip(detail["refused"], detail["execs"]))
    elif "is-served" in label:
        rep = any((not r) and e != 1 for r, e in zip(detail["refused"], detail["execs"]))
    elif "no-job-starts-after-close" in label:
        rep = bool(late_starts)
    elif "internal-error" in label:
        rep = bool(detail["accept_errors"])
    elif "exits" in label:
        rep = detail["alive_workers"] > 0
    detail["reproduced"] = rep
    return detail
