"""C15: name server operations are atomic under concurrent clients -- schedule BMC.

CFG source: the real NameServer.register / remove / set_metadata / lookup and MemoryStorage.remove_items.
NameServer.list() is used only inside remove(prefix=...); it holds the lock for its whole body, so it is modelled as
one atomic guarded step (lock must be free) that returns the matching names.
T threads each perform ONE solver-chosen operation with solver-chosen arguments on a 2-name universe, from a
solver-chosen initial map.  Oracle: linearizability against a reference map written in z3."""
import ast
import itertools
import time
import z3

from Pyro5 import nameserver
from .machine import (Machine, Domain, Encoder, AV, A_bool, A_int, A_const, NONE, bv, BW, popcount, truthy, load_method,
                      TranslationError, Frame, dotted, UNTRANSLATED)

NN = 2      # names in the universe (both match the prefix used by remove(prefix=...))
NU = 2      # uri tokens
NM = 2      # metadata tokens
OPS = ["register_safe", "register_unsafe", "remove_name", "remove_prefix", "set_metadata", "lookup", "lookup_meta"]
EXC = {"KeyError": 2, "NamingError": 3, "TypeError": 4, "ValueError": 5}


def build(T, ops=None):
    """ops: one concrete operation kind per thread (its arguments stay symbolic); None = solver-chosen kind"""
    dom = Domain()
    dom.classes = {
        "NS": {"n": 1, "fields": {"lock": ("lock", True), "storage": ("obj", "Storage")}},
        "Storage": {"n": 1, "fields": {}},
        "DictBase": {"n": 1, "fields": {}},
        "Name": {"n": NN, "fields": {}},
        "Uri": {"n": NU, "fields": {}},
        "Meta": {"n": NM, "fields": {}},
    }
    dom.exc_parents = {"NamingError": (), "KeyError": (), "TypeError": (), "ValueError": ()}
    dom.consts = {"core.URI": A_const("type:URI"), "str": A_const("type:str"), "MemoryStorage": A_const("type:MemoryStorage"), "core.NAMESERVER_NAME": A_const("Pyro.NameServer")}
    dom.local_types = {"uri": ("ref", "Uri"), "metadata": ("ref", "Meta"), "old_meta": ("ref", "Meta"), "name": ("ref", "Name"),
                       "items": ("set", "Name"), "item": ("ref", "Name"), "__self": ("ref", "Name")}
    for name in ("register", "remove", "set_metadata", "lookup"):
        dom.inline[("NS", name)] = load_method(nameserver.NameServer, name)
    dom.inline[("Storage", "remove_items")] = load_method(nameserver.MemoryStorage, "remove_items")
    if "__setitem__" in nameserver.MemoryStorage.__dict__:
        # the storage's own __setitem__ is read from the source; what it does with the underlying dict are atomic steps
        dom.inline[("Storage", "__setitem__")] = load_method(nameserver.MemoryStorage, "__setitem__")

    dom.pyclasses = {"NS": nameserver.NameServer, "Storage": nameserver.MemoryStorage}

    def receiver_is(node, frame, cls):
        d = dotted(node)
        if cls == "NS":
            return d == "self" and frame.func.split(".")[-2] == "NameServer"
        if cls == "Storage":
            return d == "self.storage" or (d == "self" and frame.func.split(".")[-2] == "MemoryStorage")
        return False
    dom.receiver_is = receiver_is
    m = Machine(dom)
    m.declare_objects({})
    for i in range(NN):
        m.declare("present[%d]" % i, "bool", "free")
        m.declare("uri[%d]" % i, "bv", "free")
        m.declare("meta[%d]" % i, "bv", "free")
    for t in range(T):
        m.declare("op[%d]" % t, "bv", "free")
        m.declare("argname[%d]" % t, "bv", "free")
        m.declare("arguri[%d]" % t, "bv", "free")
        m.declare("argmeta[%d]" % t, "bv", "free")

    def sel(keyfmt, ref, ctx):
        t = ctx.get(keyfmt % (NN - 1))
        for i in range(NN - 2, -1, -1):
            t = z3.If(ref == bv(i), ctx.get(keyfmt % i), t)
        return t

    def put(keyfmt, ref, val, ctx):
        for i in range(NN):
            ctx.set(keyfmt % i, z3.If(ref == bv(i), val, ctx.get(keyfmt % i)))

    def valid(ref):
        return z3.ULT(ref, bv(NN))

    def st_contains(ev, ctx, recv, args):
        n = args[0]
        if n.kind == "const":
            return A_bool(False)
        return A_bool(z3.And(valid(n.term), sel("present[%d]", n.term, ctx)))

    def need_ref(n):
        if n.kind != "ref":
            raise TranslationError("storage key is not a name reference: %r" % (n,))

    def st_getitem(ev, ctx, recv, args):
        n = args[0]
        need_ref(n)
        ctx.exc.append((z3.Not(z3.And(valid(n.term), sel("present[%d]", n.term, ctx))), "KeyError"))
        return AV("tuple", items=[AV("ref", sel("uri[%d]", n.term, ctx), "Uri"), AV("ref", sel("meta[%d]", n.term, ctx), "Meta")])

    def st_setitem(ev, ctx, recv, args):
        n, val = args
        need_ref(n)
        if val.kind != "tuple" or len(val.items) != 2:
            raise TranslationError("storage value must be a (uri, metadata) pair")
        u = ev.coerce(val.items[0], "ref", "Uri")
        md = ev.coerce(val.items[1], "ref", "Meta")
        put("present[%d]", n.term, z3.BoolVal(True), ctx)
        put("uri[%d]", n.term, u.term, ctx)
        put("meta[%d]", n.term, md.term, ctx)
        return NONE

    def st_delitem(ev, ctx, recv, args):
        n = args[0]
        need_ref(n)
        ctx.exc.append((z3.Not(z3.And(valid(n.term), sel("present[%d]", n.term, ctx))), "KeyError"))
        put("present[%d]", n.term, z3.BoolVal(False), ctx)
        return NONE
    def st_pop(ev, ctx, recv, args):
        n = args[0]
        need_ref(n)
        if len(args) < 2:
            ctx.exc.append((z3.Not(z3.And(valid(n.term), sel("present[%d]", n.term, ctx))), "KeyError"))
        put("present[%d]", n.term, z3.BoolVal(False), ctx)
        return NONE
    dom.methods[("Storage", "__contains__")] = st_contains
    dom.methods[("Storage", "__getitem__")] = st_getitem
    if ("Storage", "__setitem__") not in dom.inline:
        dom.methods[("Storage", "__setitem__")] = st_setitem
    dom.methods[("Storage", "__delitem__")] = st_delitem
    dom.methods[("Storage", "pop")] = st_pop
    # super(MemoryStorage, self): the plain dict underneath
    dom.functions["super"] = lambda ev, ctx, args: AV("obj", None, "DictBase")
    dom.functions["frozenset"] = lambda ev, ctx, args: args[0] if args else A_const("emptyset")
    dom.methods[("DictBase", "__setitem__")] = st_setitem
    dom.methods[("DictBase", "__delitem__")] = st_delitem
    dom.methods[("DictBase", "__getitem__")] = st_getitem
    dom.methods[("DictBase", "__contains__")] = st_contains
    dom.methods[("DictBase", "pop")] = st_pop

    def ns_list(ev, ctx, recv, args):
        """NameServer.list(prefix=P): runs entirely under self.lock -> one atomic step once the lock is free"""
        owner = ctx.get("NS[0].lock.owner")
        ctx.guard = z3.And(ctx.guard, z3.Or(owner == bv(T), owner == bv(ctx.tid)))
        mask = bv(0)
        for i in range(NN):
            mask = mask | z3.If(ctx.get("present[%d]" % i), bv(1 << i), bv(0))
        return AV("set", mask, "Name")
    dom.methods[("NS", "list")] = ns_list
    dom.methods[("set", "keys")] = lambda ev, ctx, recv, args: recv

    def set_contains(ev, ctx, recv, args):
        a = args[0]
        if a.kind == "const":
            return A_bool(False)
        c = z3.BoolVal(False)
        for i in range(NN):
            c = z3.Or(c, z3.And(a.term == bv(i), z3.Extract(i, i, recv.term) == z3.BitVecVal(1, 1)))
        return A_bool(c)
    dom.methods[("set", "__contains__")] = set_contains
    dom.methods[("set", "remove")] = lambda ev, ctx, recv, args: NONE       # only reached for the NS's own name (never present)

    def f_isinstance(ev, ctx, args):
        v, tp = args
        if tp.kind != "const":
            raise TranslationError("isinstance against %r" % (tp,))
        if tp.term == "type:URI":
            return A_bool(False)
        if tp.term == "type:str":
            return A_bool(v.kind == "ref" and v.cls in ("Name", "Uri"))
        raise TranslationError("isinstance(%r, %r)" % (v, tp))
    dom.functions["isinstance"] = f_isinstance
    dom.functions["str"] = lambda ev, ctx, args: args[0]
    dom.functions["core.URI"] = lambda ev, ctx, args: args[0]
    dom.functions["iter"] = lambda ev, ctx, args: A_const("iterator")
    dom.functions["set"] = lambda ev, ctx, args: args[0] if args else A_const("emptyset")
    dom.functions["list"] = lambda ev, ctx, args: args[0]
    dom.functions["len"] = lambda ev, ctx, args: A_int(popcount(args[0].term, NN))
    dom.functions["eq_const"] = lambda ev, ctx, args: z3.BoolVal(False)          # a universe name never equals a constant string

    ns = AV("obj", None, "NS")
    for ti in range(T):
        t = m.new_thread("client%d" % ti)
        top = Frame(0, "harness.client", ns, {})
        end = m.add_node(t, "end", ast.Pass(), top, "harness.client")
        res_uri = m.local_key_typed(t, top, "res_uri", ("ref", "Uri"))
        res_int = m.local_key_typed(t, top, "res_int", ("int", None))
        res_pair = m.local_key_typed(t, top, "res_pair", ("tuple", [("ref", "Uri"), ("ref", "Meta")]))
        t.res_uri, t.res_int, t.res_pair = res_uri, res_int, res_pair

        def argname(ctx, ti=ti):
            return ctx.get("argname[%d]" % ti)
        name_av = ("dyn", lambda ctx, ti=ti: AV("ref", ctx.get("argname[%d]" % ti), "Name"))
        uri_av = ("dyn", lambda ctx, ti=ti: AV("ref", ctx.get("arguri[%d]" % ti), "Uri"))
        meta_av = ("dyn", lambda ctx, ti=ti: AV("ref", ctx.get("argmeta[%d]" % ti), "Meta"))
        def entry_for(opname):
            if opname == "register_safe":
                return m.build_call(t, "NS", "register", ns, [name_av, uri_av, A_bool(True), meta_av], end.idx, top)
            if opname == "register_unsafe":
                return m.build_call(t, "NS", "register", ns, [name_av, uri_av, A_bool(False), meta_av], end.idx, top)
            if opname == "remove_name":
                return m.build_call(t, "NS", "remove", ns, [name_av], end.idx, top, retkey=res_int)
            if opname == "remove_prefix":
                return m.build_call(t, "NS", "remove", ns, [NONE, A_const("prefix")], end.idx, top, retkey=res_int)
            if opname == "set_metadata":
                return m.build_call(t, "NS", "set_metadata", ns, [name_av, meta_av], end.idx, top)
            if opname == "lookup_meta":
                return m.build_call(t, "NS", "lookup", ns, [name_av, A_bool(True)], end.idx, top, retkey=res_pair)
            return m.build_call(t, "NS", "lookup", ns, [name_av], end.idx, top, retkey=res_uri)
        if ops is not None:
            nxt = entry_for(ops[ti])
        else:
            entries = {o: entry_for(o) for o in OPS}
            nxt = end.idx
            for oi, opname in reversed(list(enumerate(OPS))):
                hb = m.add_node(t, "hbranch", ast.Pass(), top, "harness.client")
                hb.info = (lambda ctx, ti=ti, oi=oi: ctx.get("op[%d]" % ti) == bv(oi))
                hb.succ, hb.succ_false = entries[opname], nxt
                nxt = hb.idx
        t.entry = nxt
    m.finalize()
    return m, dom


# ------------------------------------------------------------------------------------------------
# reference semantics in z3

def ref_apply(state, op, name, uri, meta):
    """state: (present[], uri[], meta[]) lists of z3 terms -> (state', outcome, res_int, res_uri)"""
    present, uris, metas = state
    def at(lst):
        t = lst[NN - 1]
        for i in range(NN - 2, -1, -1):
            t = z3.If(name == bv(i), lst[i], t)
        return t
    here = at(present)
    is_ = lambda k: op == bv(OPS.index(k))
    new_present, new_uri, new_meta = [], [], []
    reg_ok = z3.Or(is_("register_unsafe"), z3.And(is_("register_safe"), z3.Not(here)))
    for i in range(NN):
        me = name == bv(i)
        p = present[i]
        p = z3.If(z3.And(reg_ok, me), z3.BoolVal(True), p)
        p = z3.If(z3.And(is_("remove_name"), me), z3.BoolVal(False), p)
        p = z3.If(is_("remove_prefix"), z3.BoolVal(False), p)
        new_present.append(p)
        new_uri.append(z3.If(z3.And(reg_ok, me), uri, uris[i]))
        mset = z3.Or(z3.And(reg_ok, me), z3.And(is_("set_metadata"), me, here))
        new_meta.append(z3.If(mset, meta, metas[i]))
    outcome = z3.If(z3.Or(z3.And(is_("register_safe"), here), z3.And(is_("set_metadata"), z3.Not(here)),
                          z3.And(z3.Or(is_("lookup"), is_("lookup_meta")), z3.Not(here))),
                    bv(EXC["NamingError"]), bv(1))
    cnt = bv(0)
    for i in range(NN):
        cnt = cnt + z3.If(present[i], bv(1), bv(0))
    res_int = z3.If(is_("remove_name"), z3.If(here, bv(1), bv(0)), z3.If(is_("remove_prefix"), cnt, bv(0)))
    res_uri = z3.If(z3.And(z3.Or(is_("lookup"), is_("lookup_meta")), here), at(uris), bv(NU))
    res_meta = z3.If(z3.And(is_("lookup_meta"), here), at(metas), bv(NM))
    return (new_present, new_uri, new_meta), outcome, res_int, (res_uri, res_meta)


def check(T=2, K=30, timeout_s=600, forbid_remove=False, only_ops=None, ops=None):
    t0 = time.time()
    m, dom = build(T, ops)
    if ops is not None and K is None:
        K = sum(len(t.nodes) for t in m.threads)
    enc = Encoder(m, EXC)
    s = z3.SolverFor("QF_BV")
    s.set("timeout", int(timeout_s * 1000))
    states, tids, nds = enc.unroll(K, None, None, s)
    NT = enc.nthreads
    s0 = states[0]
    # well-formed arguments and initial map
    for t in range(T):
        s.add(z3.ULT(s0["op[%d]" % t], bv(len(OPS))), z3.ULT(s0["argname[%d]" % t], bv(NN)),
              z3.ULT(s0["arguri[%d]" % t], bv(NU)), z3.ULE(s0["argmeta[%d]" % t], bv(NM)))
        if forbid_remove:
            s.add(s0["op[%d]" % t] != bv(OPS.index("remove_name")), s0["op[%d]" % t] != bv(OPS.index("remove_prefix")))
        if only_ops:
            s.add(z3.Or(*[s0["op[%d]" % t] == bv(OPS.index(o)) for o in only_ops]))
        if ops is not None:
            s.add(s0["op[%d]" % t] == bv(OPS.index(ops[t])))
    for i in range(NN):
        s.add(z3.ULT(s0["uri[%d]" % i], bv(NU)), z3.ULE(s0["meta[%d]" % i], bv(NM)))
    bad = []
    for k, st in enumerate(states):
        for t in range(T):
            oc = st["client%d.outcome" % t]
            b = z3.Bool("viol!%d!internal%d" % (k, t))
            s.add(b == z3.Or(oc == bv(EXC["KeyError"]), oc == bv(UNTRANSLATED), oc == bv(EXC["TypeError"]), oc == bv(EXC["ValueError"])))
            bad.append((b, k, "client%d-no-internal-error (KeyError/TypeError escaping an operation)" % t))
    # linearizability at the end
    final = states[K]
    alldone = z3.And(*[final["client%d.outcome" % t] != bv(0) for t in range(T)])
    explained = []
    for perm in itertools.permutations(range(T)):
        stt = ([s0["present[%d]" % i] for i in range(NN)], [s0["uri[%d]" % i] for i in range(NN)], [s0["meta[%d]" % i] for i in range(NN)])
        conj = []
        for t in perm:
            stt, oc, ri, ru = ref_apply(stt, s0["op[%d]" % t], s0["argname[%d]" % t], s0["arguri[%d]" % t], s0["argmeta[%d]" % t])
            th = m.threads[t]
            conj.append(final["client%d.outcome" % t] == oc)
            conj.append(z3.Implies(oc == bv(1), z3.And(final[th.res_int] == ri,
                                                       z3.Implies(s0["op[%d]" % t] == bv(OPS.index("lookup")), final[th.res_uri] == ru[0]),
                                                       z3.Implies(s0["op[%d]" % t] == bv(OPS.index("lookup_meta")),
                                                                  z3.And(final[th.res_pair + "#0"] == ru[0], final[th.res_pair + "#1"] == ru[1])))))
        for i in range(NN):
            conj.append(final["present[%d]" % i] == stt[0][i])
            conj.append(z3.Implies(stt[0][i], z3.And(final["uri[%d]" % i] == stt[1][i], final["meta[%d]" % i] == stt[2][i])))
        explained.append(z3.And(*conj))
    b = z3.Bool("viol!lin")
    s.add(b == z3.And(alldone, z3.Not(z3.Or(*explained))))
    bad.append((b, K, "results-and-final-map-are-explained-by-some-sequential-order"))
    for k in range(K):
        done = z3.And(*[states[k]["client%d.outcome" % t] != bv(0) for t in range(T)])
        bd = z3.Bool("dead!%d" % k)
        s.add(bd == z3.And(tids[k] == bv(NT), z3.Not(done)))
        bad.append((bd, k, "no-deadlock: every operation returns"))
    s.add(z3.Or(*[x for x, _, _ in bad]))
    r = s.check()
    out = {"result": str(r), "K": K, "threads": NT, "wall_s": time.time() - t0, "nodes": sum(len(t.nodes) for t in m.threads),
           "encoded": dict(m.encoded), "assertions": len(bad),
           "untranslated_nodes": {"%s:%d" % k: v for k, v in enc.untranslated.items()}}
    if r == z3.sat:
        mdl = s.model()
        hit = sorted((k, lab) for x, k, lab in bad if z3.is_true(mdl.eval(x)))
        k0, lab0 = hit[0]
        ev = lambda t: mdl.eval(t, model_completion=True)
        ops = [(OPS[ev(s0["op[%d]" % t]).as_long()], ev(s0["argname[%d]" % t]).as_long(), ev(s0["arguri[%d]" % t]).as_long(),
                ev(s0["argmeta[%d]" % t]).as_long()) for t in range(T)]
        init = [(bool(z3.is_true(ev(s0["present[%d]" % i]))), ev(s0["uri[%d]" % i]).as_long(), ev(s0["meta[%d]" % i]).as_long()) for i in range(NN)]
        sched = []
        last = K if "sequential" in lab0 else min(K, k0 + 1)
        for k in range(last):
            ti = ev(tids[k]).as_long()
            if ti >= NT:
                sched.append(("-", None, None, None, None))
                continue
            t = m.threads[ti]
            pc = ev(states[k][t.name + ".pc"]).as_long()
            node = t.nodes[pc]
            sched.append((t.name, node.func, node.line, 0, node.kind))
        outcomes = [ev(final["client%d.outcome" % t]).as_long() for t in range(T)]
        lines = sorted({n.line for t in m.threads for n in t.nodes if n.kind not in ("enter", "end", "set", "call", "jump", "hbranch") and n.func.startswith("Pyro5.")})
        out["violation"] = {"label": lab0, "step": k0, "ops": ops, "initial_map": init, "schedule": sched, "model_outcomes": outcomes,
                            "model_lines": lines}
    return out


def completion_reachable(T, K):
    m, dom = build(T)
    enc = Encoder(m, EXC)
    s = z3.SolverFor("QF_BV")
    states, tids, nds = enc.unroll(K, None, None, s)
    s0 = states[0]
    for t in range(T):
        s.add(z3.ULT(s0["op[%d]" % t], bv(len(OPS))), z3.ULT(s0["argname[%d]" % t], bv(NN)))
        s.add(s0["op[%d]" % t] == bv(OPS.index("remove_prefix")))
    for i in range(NN):
        s.add(s0["present[%d]" % i])
    s.add(z3.And(*[states[K]["client%d.outcome" % t] == bv(1) for t in range(T)]))
    return str(s.check())


# ------------------------------------------------------------------------------------------------
# replay on the real NameServer with real threads

NAMES = ["ab", "ac"]
URIS = ["PYRO:obj0@host:1", "PYRO:obj1@host:1"]
METAS = [{"m0"}, {"m1"}, None]


def _ref_run(order, ops, init):
    from Pyro5.errors import NamingError
    d = {NAMES[i]: (URIS[u], set(METAS[mm] or ())) for i, (p, u, mm) in enumerate(init) if p}
    res = {}
    for t in order:
        op, n, u, mm = ops[t]
        name = NAMES[n]
        try:
            if op.startswith("register"):
                if op == "register_safe" and name in d:
                    raise NamingError("x")
                d[name] = (URIS[u], set(METAS[mm] or ()))
                res[t] = ("ok", None)
            elif op == "remove_name":
                res[t] = ("ok", 1 if d.pop(name, None) is not None else 0)
            elif op == "remove_prefix":
                k = len(d)
                d.clear()
                res[t] = ("ok", k)
            elif op == "set_metadata":
                if name not in d:
                    raise NamingError("x")
                d[name] = (d[name][0], set(METAS[mm] or ()))
                res[t] = ("ok", None)
            elif op == "lookup_meta":
                if name not in d:
                    raise NamingError("x")
                res[t] = ("ok", (d[name][0], sorted(d[name][1])))
            else:
                if name not in d:
                    raise NamingError("x")
                res[t] = ("ok", d[name][0])
        except NamingError:
            res[t] = ("NamingError", None)
    return res, d


def replay(T, ops, init, schedule, model_lines):
    import sys
    import threading
    import itertools as it
    from Pyro5 import nameserver as NSM
    from .replay_pool import Gate
    # every python-level method of the name server and of its in-memory storage is gated line by line
    codes = set()
    for klass in (NSM.NameServer, NSM.MemoryStorage):
        for f in klass.__dict__.values():
            if isinstance(f, (staticmethod, classmethod)):
                f = f.__func__
            if hasattr(f, "__code__") and getattr(f, "__name__", "") not in ("__init__", "list", "count", "yplookup", "everything", "close"):
                codes.add(f.__code__)
    gate = Gate(codes)
    ns = NSM.NameServer()
    for i, (p, u, mm) in enumerate(init):
        if p:
            ns.storage[NAMES[i]] = (URIS[u], set(METAS[mm] or ()))
    results = {}

    def body(t):
        sys.settrace(gate.tracer)
        op, n, u, mm = ops[t]
        name = NAMES[n]
        try:
            if op == "register_safe":
                results[t] = ("ok", ns.register(name, URIS[u], safe=True, metadata=METAS[mm]))
            elif op == "register_unsafe":
                results[t] = ("ok", ns.register(name, URIS[u], safe=False, metadata=METAS[mm]))
            elif op == "remove_name":
                results[t] = ("ok", ns.remove(name))
            elif op == "remove_prefix":
                results[t] = ("ok", ns.remove(prefix="a"))
            elif op == "set_metadata":
                results[t] = ("ok", ns.set_metadata(name, METAS[mm] or []))
            elif op == "lookup_meta":
                u_, m_ = ns.lookup(name, return_metadata=True)
                results[t] = ("ok", (str(u_), sorted(m_)))
            else:
                results[t] = ("ok", str(ns.lookup(name)))
        except Exception as x:
            results[t] = (type(x).__name__, None)
    threads = {}
    for t in range(T):
        th = threading.Thread(target=body, args=(t,), daemon=True)
        th._vkey = "client%d" % t
        threads["client%d" % t] = th
    started = set()
    model_lines = set(model_lines)
    try:
        for (tname, func, line, nd, kind) in schedule:
            if tname in threads and tname not in started:
                threads[tname].start()
                started.add(tname)
            if tname == "-" or not func or not func.startswith("Pyro5.") or kind in ("enter", "end", "set", "hbranch"):
                continue
            for _ in range(6):
                at = gate.wait_paused(tname, 1.0)
                if at is None:
                    break
                if at == line:
                    gate.step(tname)
                    break
                if at in model_lines:
                    break
                gate.step(tname)
        gate.release_all()
        for tname, th in threads.items():
            if tname not in started:
                th.start()
            th.join(2.0)
    finally:
        gate.release_all()
    final = {k: (v[0], set(v[1] or ())) for k, v in ns.storage.items()}
    internal = [r for r in results.values() if r[0] not in ("ok", "NamingError")]
    lin = False
    for order in it.permutations(range(T)):
        res, d = _ref_run(order, ops, init)
        ok = d == final
        for t in range(T):
            got = results.get(t)
            exp = res[t]
            if got is None or got[0] != exp[0]:
                ok = False
            elif exp[0] == "ok" and exp[1] is not None and got[1] != exp[1]:
                ok = False
        if ok:
            lin = True
            break
    return {"results": {t: list(v) for t, v in results.items()}, "final_map": {k: [v[0], sorted(v[1])] for k, v in final.items()},
            "internal_errors": [r[0] for r in internal], "linearizable": lin, "reproduced": bool(internal) or not lin}
