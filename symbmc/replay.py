"""bin/check <id> --replay <file> for counterexamples found by the schedule engine: the recorded schedule is executed again
on the real objects with real threads, one source line at a time (replay_pool.Gate), and the violated condition is
re-evaluated on what really happened."""
import json

EXIT_OK, EXIT_VIOLATION, EXIT_ERROR = 0, 1, 2


def replay_file(path):
    rec = json.load(open(path))
    target = rec.get("target")
    sched = [tuple(s) for s in rec["schedule"]]
    lines = rec.get("model_lines", [])
    if target == "pool":
        from . import replay_pool
        cfg = rec["config"]
        det = replay_pool.replay(cfg[0], cfg[1], cfg[2], cfg[3], sched, rec["label"], lines)
    elif target == "nameserver":
        from . import nameserver
        det = nameserver.replay(len(rec["ops"]), rec["ops"], rec["initial_map"], sched, lines)
    elif target == "instances":
        from . import instances
        det = instances.replay(rec["threads"], sched, rec["label"], lines)
    else:
        print("unknown replay target %r" % (target,))
        return EXIT_ERROR
    shown = {k: v for k, v in det.items() if k != "trace"}
    print("schedule replay of %s on real threads: %r" % (path, shown))
    if det.get("reproduced"):
        print("VIOLATION property=%s replay=%s" % (rec["property"], path))
        return EXIT_VIOLATION
    return EXIT_OK
