"""C18: the thread pool of svr_threads.py as a schedule-BMC problem.

CFG source: the real Pool.process / notify_done / close / num_workers and Worker.run / process (read with inspect
from the working tree).  Threads: the accept thread submitting J jobs, one thread per Worker object, optionally a
closer thread running Pool.close once the submissions are over."""
import ast
import time
import z3

from Pyro5 import svr_threads
from .machine import (Machine, Domain, Encoder, AV, A_bool, A_int, A_const, NONE, bv, BW, popcount, truthy, load_method,
                      TranslationError, Frame, dotted)


def build(MIN, SIZE, J, with_close, race=False):
    W = MIN + J            # every process() call creates at most one worker
    dom = Domain()
    dom.classes = {
        "Pool": {"n": 1, "fields": {"idle": ("set", "Worker"), "busy": ("set", "Worker"), "closed": ("bool", None),
                                    "count_lock": ("lock", False)}},
        "Worker": {"n": W, "fields": {"job": ("ref", "Job"), "job_available": ("event", None), "pool": ("obj", "Pool"),
                                      "started": ("bool", None), "daemon": ("ignore", None), "name": ("ignore", None)}},
        "Job": {"n": J, "fields": {"execs": ("int", None)}},
    }
    dom.exc_parents = {"NoFreeWorkersError": ("PoolError",), "PoolError": (), "KeyError": (), "TypeError": ()}
    dom.consts = {"config.THREADPOOL_SIZE": A_int(SIZE), "config.THREADPOOL_SIZE_MIN": A_int(MIN)}
    dom.local_types = {"worker": ("ref", "Worker"), "job": ("ref", "Job"), "w": ("ref", "Worker"), "p": ("ref", "Worker"),
                       "idle": ("set", "Worker"), "busy": ("set", "Worker"), "current_thread": ("ref", "Worker"),
                       "__self": ("ref", "Worker")}
    dom.skip_calls = {"time.sleep"}
    for cls, name in (("Pool", "process"), ("Pool", "notify_done"), ("Pool", "close"), ("Pool", "num_workers"),
                      ("Worker", "run"), ("Worker", "process")):
        dom.inline[(cls, name)] = load_method(getattr(svr_threads, cls), name)

    dom.pyclasses = {"Pool": svr_threads.Pool, "Worker": svr_threads.Worker}

    def receiver_is(node, frame, cls):
        d = dotted(node)
        if cls == "Pool":
            return d in ("self.pool",) or (d == "self" and frame.func.split(".")[-2] == "Pool") or d == "pool"
        return d in ("worker", "w") or (d == "self" and frame.func.split(".")[-2] == "Worker")
    dom.receiver_is = receiver_is
    m = Machine(dom)
    m.declare_objects({("Pool", "idle"): (1 << MIN) - 1, ("Pool", "busy"): 0, ("Pool", "closed"): False,
                       ("Worker", "started"): lambda i: i < MIN, ("Worker", "job"): J, ("Job", "execs"): 0})
    # the event flag of each worker is a bool field stored under the same key scheme
    for i in range(W):
        m.declare("Worker[%d].job_available" % i, "bool", z3.BoolVal(False))
    m.declare("nalloc", "bv", bv(MIN))
    m.declare("overflow", "bool", z3.BoolVal(False))
    for j in range(J):
        m.declare("refused[%d]" % j, "bool", z3.BoolVal(False))
        m.declare("submitted[%d]" % j, "bool", z3.BoolVal(False))
    m.declare("late_start", "bool", z3.BoolVal(False))
    for i in range(W):
        m.declare("told[%d]" % i, "bool", z3.BoolVal(False))      # close() handed this worker the stop marker
    m.declare("close_returned", "bool", z3.BoolVal(False))

    # ---- abstract operations ---------------------------------------------------------------------
    def member(mask, ref, n):
        c = z3.BoolVal(False)
        for i in range(n):
            c = z3.Or(c, z3.And(ref == bv(i), z3.Extract(i, i, mask) == z3.BitVecVal(1, 1)))
        return c

    def bit(ref, n):
        t = bv(0)
        for i in range(n):
            t = z3.If(ref == bv(i), bv(1 << i), t)
        return t

    def lvalue_key(ev, ctx, recv_node):
        raise TranslationError("set mutation needs an lvalue")

    def set_pop(ev, ctx, recv, args):
        n = dom.count(recv.cls)
        empty = recv.term == bv(0)
        ctx.exc.append((empty, "KeyError"))
        # the popped element is chosen by the solver (python's set.pop is arbitrary)
        ctx.choice = z3.And(ctx.choice, z3.Or(empty, member(recv.term, ctx.nd, n)))
        ev.store_back(ctx, recv, recv.term & ~bit(ctx.nd, n))
        return AV("ref", ctx.nd, recv.cls)

    def set_add(ev, ctx, recv, args):
        n = dom.count(recv.cls)
        ev.store_back(ctx, recv, recv.term | bit(args[0].term, n))
        return NONE

    def set_remove(ev, ctx, recv, args):
        n = dom.count(recv.cls)
        ctx.exc.append((z3.Not(member(recv.term, args[0].term, n)), "KeyError"))
        ev.store_back(ctx, recv, recv.term & ~bit(args[0].term, n))
        return NONE

    def set_discard(ev, ctx, recv, args):
        n = dom.count(recv.cls)
        ev.store_back(ctx, recv, recv.term & ~bit(args[0].term, n))
        return NONE

    def set_contains(ev, ctx, recv, args):
        return A_bool(member(recv.term, args[0].term, dom.count(recv.cls)))
    dom.methods[("set", "discard")] = set_discard
    dom.methods[("set", "pop")] = set_pop
    dom.methods[("set", "add")] = set_add
    dom.methods[("set", "remove")] = set_remove
    dom.methods[("set", "__contains__")] = set_contains

    def ev_wait(ev, ctx, recv, args):
        ctx.guard = z3.And(ctx.guard, recv.term)
        return A_bool(True)

    def ev_set(ev, ctx, recv, args):
        ev.store_back(ctx, recv, z3.BoolVal(True))
        if ctx.thread.name == "closer" and recv.origin and recv.origin[0] == "field":
            base = recv.origin[1]
            for i in range(W):
                ctx.set("told[%d]" % i, z3.Or(ctx.get("told[%d]" % i), base.term == bv(i)))
        return NONE

    def ev_clear(ev, ctx, recv, args):
        ev.store_back(ctx, recv, z3.BoolVal(False))
        return NONE
    dom.methods[("event", "wait")] = ev_wait
    dom.methods[("event", "set")] = ev_set
    dom.methods[("event", "clear")] = ev_clear

    def worker_start(ev, ctx, recv, args):
        ev.setfield(recv, "started", A_bool(True), ctx)
        return NONE

    def worker_join(ev, ctx, recv, args):
        return NONE

    def run_job(ev, ctx, recv, args):
        """self.job(): the job held by this worker executes"""
        job = ev.getfield(recv, "job", ctx)
        for j in range(J):
            key = m.field_key("Job", j, "execs")
            ctx.set(key, z3.If(job.term == bv(j), ctx.get(key) + bv(1), ctx.get(key)))
        isnone = job.term == bv(J)
        ctx.exc.append((isnone, "TypeError"))       # calling None
        ctx.set("late_start", z3.Or(ctx.get("late_start"), z3.And(ctx.get("close_returned"), z3.Not(isnone))))
        return NONE
    dom.methods[("Worker", "start")] = worker_start
    dom.methods[("Worker", "join")] = worker_join
    dom.methods[("Worker", "job")] = run_job

    def f_len(ev, ctx, args):
        (s,) = args
        if s.kind != "set":
            raise TranslationError("len() of %r" % (s,))
        return A_int(popcount(s.term, dom.count(s.cls)))

    def f_list(ev, ctx, args):
        return args[0]

    def f_set(ev, ctx, args):
        if args:
            return args[0]
        return A_const("emptyset")

    def f_worker(ev, ctx, args):
        """Worker(pool): a new worker object"""
        idx = ctx.get("nalloc")
        ctx.set("overflow", z3.Or(ctx.get("overflow"), idx == bv(W)))
        ctx.set("nalloc", z3.If(idx == bv(W), idx, idx + bv(1)))
        return AV("ref", idx, "Worker")

    def f_current_thread(ev, ctx, args):
        return AV("ref", bv(W), "Worker")      # the closer is not a worker
    dom.functions["len"] = f_len
    dom.functions["list"] = f_list
    dom.functions["set"] = f_set
    dom.functions["Worker"] = f_worker
    dom.functions["threading.current_thread"] = f_current_thread

    # ---- threads ---------------------------------------------------------------------------------
    pool_obj = AV("obj", None, "Pool")
    acc = m.new_thread("accept")
    top = Frame(0, "harness.accept", pool_obj, {})
    end = m.add_node(acc, "end", ast.Pass(), top, "harness.accept")
    nxt = end.idx
    for j in reversed(range(J)):
        ref = m.add_node(acc, "set", ast.Pass(), top, "harness.accept")
        ref.info = [("refused[%d]" % j, lambda ctx: z3.BoolVal(True))]
        ref.succ = nxt
        call = m.build_call(acc, "Pool", "process", pool_obj, [AV("ref", bv(j), "Job")], nxt, top,
                            handlers=[({"NoFreeWorkersError", "PoolError"} if race else {"NoFreeWorkersError"}, ref.idx)])
        sub = m.add_node(acc, "set", ast.Pass(), top, "harness.accept")
        sub.info = [("submitted[%d]" % j, lambda ctx: z3.BoolVal(True))]
        sub.succ = call
        nxt = sub.idx
    acc.entry = nxt
    for i in range(W):
        t = m.new_thread("worker%d" % i)
        top = Frame(0, "harness.worker", AV("ref", bv(i), "Worker"), {})
        end = m.add_node(t, "end", ast.Pass(), top, "harness.worker")
        t.entry = m.build_call(t, "Worker", "run", AV("ref", bv(i), "Worker"), [], end.idx, top)
    if with_close:
        t = m.new_thread("closer")
        top = Frame(0, "harness.closer", pool_obj, {})
        end = m.add_node(t, "end", ast.Pass(), top, "harness.closer")
        mark = m.add_node(t, "set", ast.Pass(), top, "harness.closer")
        mark.info = [("close_returned", lambda ctx: z3.BoolVal(True))]
        mark.succ = end.idx
        t.entry = m.build_call(t, "Pool", "close", pool_obj, [], mark.idx, top)
    m.finalize()
    return m, dom, W


def store_back_factory(m):
    pass


def check(MIN, SIZE, J, with_close, K, timeout_s=600, preempt=None, exclude=(), race=False):
    """returns dict(result='unsat'|'sat'|'unknown', model info..., stats)"""
    t0 = time.time()
    m, dom, W = build(MIN, SIZE, J, with_close, race)
    enc = Encoder(m, {"KeyError": 2, "PoolError": 3, "NoFreeWorkersError": 4, "TypeError": 5})
    for i in range(W):
        enc.extra_guards["worker%d" % i] = (lambda i: lambda st: st["Worker[%d].started" % i])(i)
    if with_close and not race:
        # submissions are over before the pool is closed; with race=True close() may start at any moment, also while a
        # connection is being submitted (a submission that finds the pool closed is turned away with PoolError)
        enc.extra_guards["closer"] = lambda st: st["accept.outcome"] != bv(0)
    s = z3.SolverFor("QF_BV")
    s.set("timeout", int(timeout_s * 1000))
    states, tids, nds = enc.unroll(K, None, None, s)
    NT = enc.nthreads
    viol = []
    labels = []

    def safety(st):
        idle, busy = st["Pool[0].idle"], st["Pool[0].busy"]
        members = popcount(idle | busy, W)
        conds = {
            "workers-bounded: |idle U busy| <= THREADPOOL_SIZE": z3.ULE(members, bv(SIZE)),
            "idle-and-busy-disjoint": (idle & busy) == bv(0),
            "no-internal-error-in-accept-thread": z3.ULT(st["accept.outcome"], bv(2)),
            "model-capacity (worker objects)": z3.Not(st["overflow"]),
        }
        for j in range(J):
            conds["job%d-runs-at-most-once" % j] = z3.ULE(st["Job[%d].execs" % j], bv(1))
            conds["refused-job%d-never-runs" % j] = z3.Implies(st["refused[%d]" % j], st["Job[%d].execs" % j] == bv(0))
        if with_close:
            conds["no-job-starts-after-close-returned"] = z3.Not(st["late_start"])
            conds["closer-no-internal-error"] = z3.ULT(st["closer.outcome"], bv(2))
        return conds

    def terminal(st):
        conds = {}
        # (a job that was handed over but not yet started when the pool is closed is discarded by close():
        #  "starts no further job" -- so being served is only demanded when the pool is not being closed)
        for j in range(J if not with_close else 0):
            conds["accepted-job%d-is-served" % j] = z3.Implies(z3.And(st["submitted[%d]" % j], z3.Not(st["refused[%d]" % j])),
                                                               st["Job[%d].execs" % j] == bv(1))
        if with_close:
            for i in range(W):
                stuck = z3.And(st["Worker[%d].started" % i], st["close_returned"], st["worker%d.outcome" % i] == bv(0))
                conds["worker%d-that-close-told-to-stop-exits" % i] = z3.Not(z3.And(stuck, st["told[%d]" % i]))
                conds["worker%d-in-transit-during-close-exits" % i] = z3.Not(z3.And(stuck, z3.Not(st["told[%d]" % i])))
        return conds
    bad = []
    for k, st in enumerate(states):
        for lab, c in safety(st).items():
            b = z3.Bool("viol!%d!%s" % (k, lab))
            s.add(b == z3.Not(c))
            bad.append((b, k, lab))
    for k in range(K):
        # a stutter step means nothing is enabled: quiescent state
        for lab, c in terminal(states[k]).items():
            b = z3.Bool("tviol!%d!%s" % (k, lab))
            s.add(b == z3.And(tids[k] == bv(NT), z3.Not(c)))
            bad.append((b, k, "at-quiescence: " + lab))
    if preempt is not None:
        enc.preemption_bound(s, tids, preempt)
    bad = [(b, k, lab) for b, k, lab in bad if not any(lab.startswith(x) or lab.startswith("at-quiescence: " + x) for x in exclude)]
    s.add(z3.Or(*[b for b, _, _ in bad]))
    r = s.check()
    out = {"result": str(r), "K": K, "threads": NT, "workers": W, "wall_s": time.time() - t0, "nodes": sum(len(t.nodes) for t in m.threads),
           "encoded": dict(m.encoded), "assertions": len(bad)}
    if r == z3.sat:
        mdl = s.model()
        hit = [(k, lab) for b, k, lab in bad if z3.is_true(mdl.eval(b))]
        hit.sort()
        k0, lab0 = hit[0]
        sched = []
        for k in range(min(K, k0 + 1)):
            ti = mdl.eval(tids[k], model_completion=True).as_long()
            if ti >= NT:
                sched.append(("-", None, None, None, None))
                continue
            t = m.threads[ti]
            pc = mdl.eval(states[k][t.name + ".pc"], model_completion=True).as_long()
            node = t.nodes[pc]
            sched.append((t.name, node.func, node.line, mdl.eval(nds[k], model_completion=True).as_long(), node.kind))
        lines = sorted({n.line for t in m.threads for n in t.nodes if n.kind not in ("enter", "end", "set", "call", "jump") and n.func.startswith("Pyro5.")})
        out["violation"] = {"label": lab0, "step": k0, "schedule": sched, "all": hit[:6], "model_lines": lines}
    return out, (m, enc, states, tids, nds)


def reach_quiescence(MIN, SIZE, J, with_close, K, race=False):
    """vacuity guard: a quiescent state with every job served is reachable within K steps"""
    m, dom, W = build(MIN, SIZE, J, with_close, race)
    enc = Encoder(m, {"KeyError": 2, "PoolError": 3, "NoFreeWorkersError": 4, "TypeError": 5})
    for i in range(W):
        enc.extra_guards["worker%d" % i] = (lambda i: lambda st: st["Worker[%d].started" % i])(i)
    if with_close and not race:
        enc.extra_guards["closer"] = lambda st: st["accept.outcome"] != bv(0)
    s = z3.SolverFor("QF_BV")
    s.set("timeout", 300000)
    states, tids, nds = enc.unroll(K, None, None, s)
    NT = enc.nthreads
    goal = z3.And(tids[K - 1] == bv(NT), states[K - 1]["accept.outcome"] == bv(1),
                  *[z3.Or(states[K - 1]["Job[%d].execs" % j] == bv(1), states[K - 1]["refused[%d]" % j]) for j in range(J)])
    if with_close:
        goal = z3.And(goal, states[K - 1]["close_returned"])
    s.add(goal)
    return str(s.check())
