"""symbmc: bounded model checking of thread schedules over a statement-level CFG extracted from the real source.

Front end: the AST of the real methods is flattened into per-thread control-flow graphs whose nodes are source
statements (sibling-method calls inlined, `with lock:` = acquire/release nodes, Event.wait = guarded node,
`for x in list(S)` = snapshot + iteration).  Each node's effect is obtained by *symbolically evaluating that
statement's AST* over a small abstract store of bit-vectors (object references are indices, sets are masks).
Statement forms or operations the evaluator does not know abort the check (TranslationError) -- never skipped.

Back end: K copies of the state, a solver-chosen thread id per step (QF_BV only), safety assertions at every
step, terminal assertions at quiescence."""
import ast
import inspect
import hashlib
import textwrap
import z3


class TranslationError(Exception):
    pass


BW = 8          # width of every bit-vector in the store
UNTRANSLATED = 99


def bv(v):
    return z3.BitVecVal(v, BW)


# ------------------------------------------------------------------------------------------------
# abstract values

class AV:
    """abstract value: kind in
       'bool' (z3 Bool), 'int' (BV), 'ref' (BV index into class cls, == n means None), 'set' (BV mask over cls),
       'const' (python constant / marker), 'tuple' (python tuple of AV), 'obj' (a concrete singleton object name)"""
    __slots__ = ("kind", "term", "cls", "items", "origin")

    def __init__(self, kind, term=None, cls=None, items=None, origin=None):
        self.kind, self.term, self.cls, self.items, self.origin = kind, term, cls, items, origin

    def __repr__(self):
        return "AV(%s,%s,%s)" % (self.kind, self.cls, self.term if self.items is None else self.items)


def A_bool(t):
    return AV("bool", t if z3.is_expr(t) else z3.BoolVal(bool(t)))


def A_int(t):
    return AV("int", t if z3.is_expr(t) else bv(t))


def A_const(v):
    return AV("const", v)


NONE = A_const(None)


def popcount(mask, n):
    tot = bv(0)
    for i in range(n):
        tot = tot + z3.ZeroExt(BW - 1, z3.Extract(i, i, mask))
    return tot


def truthy(v, dom):
    if v.kind == "bool":
        return v.term
    if v.kind == "int":
        return v.term != bv(0)
    if v.kind == "set":
        return v.term != bv(0)
    if v.kind == "ref":
        return v.term != bv(dom.count(v.cls))
    if v.kind == "const":
        return z3.BoolVal(bool(v.term))
    if v.kind == "tuple":
        return z3.BoolVal(len(v.items) > 0)
    if v.kind == "obj":
        return z3.BoolVal(True)
    raise TranslationError("truth value of %r" % (v,))


class Node:
    __slots__ = ("idx", "kind", "ast", "frame", "succ", "succ_false", "exc", "line", "func", "info")

    def __init__(self, kind, node_ast, frame, line, func):
        self.idx = None
        self.kind = kind          # stmt | branch | acquire | release | foriter | enter | ret | end
        self.ast = node_ast
        self.frame = frame
        self.succ = None
        self.succ_false = None
        self.exc = {}             # exception class name -> node idx ; missing -> thread ends with that exception
        self.line = line
        self.func = func
        self.info = None


class Frame:
    def __init__(self, fid, func_qual, self_val, params, parent=None):
        self.fid = fid
        self.func = func_qual
        self.self_val = self_val
        self.locals = {}          # python name -> state var key
        self.static = dict(params)  # python name -> AV fixed for the thread (constants / args)
        self.parent = parent
        self.retvar = None
        self.tuples = {}          # python name of a tuple-valued local -> list of component state var keys


class Thread:
    def __init__(self, name):
        self.name = name
        self.nodes = []
        self.entry = None
        self.locals = {}          # var key -> (kind, cls) declared
        self.outcome_var = None


class Domain:
    """what the front end needs to know about the objects of one target"""

    def __init__(self):
        self.classes = {}        # cls -> {"n": count, "fields": {name: (kind, cls)}}
        self.singletons = {}     # name -> cls (objects with exactly one instance, index 0)
        self.inline = {}         # (cls, method) -> (FunctionDef, qualname, file, firstline)
        self.consts = {}         # dotted name -> AV
        self.local_types = {}    # python local name -> (kind, cls)
        self.skip_calls = set()  # dotted call names that are no-ops (logging, sleep)
        self.methods = {}        # (kind/cls, method) -> handler(machine, ctx, recv, args) -> AV
        self.functions = {}      # name -> handler(machine, ctx, args) -> AV
        self.excs = set()        # known exception class names

    def count(self, cls):
        return self.classes[cls]["n"]


class Ctx:
    """evaluation context of one node firing: current state (dict var -> term), thread, frame, pending updates"""

    def __init__(self, machine, state, tid, thread, frame, nd):
        self.m = machine
        self.state = state
        self.upd = {}
        self.tid = tid
        self.thread = thread
        self.frame = frame
        self.nd = nd              # nondeterministic choice BV for this step
        self.exc = []             # list of (cond, exc_name) raised by this statement
        self.guard = z3.BoolVal(True)      # blocking condition (event set, lock free)
        self.choice = z3.BoolVal(True)     # constraint on the solver-chosen nondeterministic value of this step
        self.kwargs = {}

    def get(self, key):
        self.m.accessed.add(key)
        return self.upd.get(key, self.state[key])

    def set(self, key, term):
        self.m.accessed.add(key)
        self.upd[key] = term


class Machine:
    def __init__(self, dom):
        self.dom = dom
        self.threads = []
        self.shared = {}          # var key -> sort ("bool"/"bv")
        self.init = {}            # var key -> initial term
        self.encoded = {}         # qualname -> sha of source
        self.node_table = []      # (thread, idx, func, line, kind) for evidence / replay
        self.accessed = set()
        self.local_nodes = {}     # thread name -> set of node idx that touch thread-local state only
        self.observed = set()     # shared keys that assertions read (writes to them are visible actions)

    # ---- state declaration --------------------------------------------------------------------
    def declare(self, key, sort, init):
        self.shared[key] = sort
        self.init[key] = init

    def field_key(self, cls, i, f):
        return "%s[%d].%s" % (cls, i, f)

    def declare_objects(self, inits):
        for cls, spec in self.dom.classes.items():
            for i in range(spec["n"]):
                for f, (kind, c2) in spec["fields"].items():
                    key = self.field_key(cls, i, f)
                    iv = inits.get((cls, f), None)
                    if callable(iv):
                        iv = iv(i)
                    if kind == "lock":
                        base = self.field_key(cls, i, f)
                        self.declare(base + ".owner", "bv", None)     # patched to "free" by the encoder
                        self.declare(base + ".depth", "bv", bv(0))
                        continue
                    if kind in ("ignore", "obj"):
                        continue
                    if kind in ("bool", "event"):
                        self.declare(key, "bool", z3.BoolVal(bool(iv)))
                    else:
                        if iv is None and kind == "ref":
                            iv = self.dom.count(c2)
                        self.declare(key, "bv", bv(iv or 0))

    # ---- CFG construction ----------------------------------------------------------------------
    def new_thread(self, name):
        t = Thread(name)
        self.threads.append(t)
        return t

    def add_node(self, thread, kind, node_ast, frame, func):
        n = Node(kind, node_ast, frame, getattr(node_ast, "lineno", 0), func)
        n.idx = len(thread.nodes)
        thread.nodes.append(n)
        return n

    def local_key(self, thread, frame, name):
        key = "%s.f%d.%s" % (thread.name, frame.fid, name)
        if key not in thread.locals:
            if name not in self.dom.local_types:
                raise TranslationError("local variable %r has no declared abstract type" % name)
            thread.locals[key] = self.dom.local_types[name]
        frame.locals[name] = key
        return key

    def build_call(self, thread, cls, method, self_val, args, next_idx, parent_frame, retkey=None, handlers=None, locks=()):
        """inline a method: returns entry node idx"""
        fdef, qual, src = self.dom.inline[(cls, method)]
        self.encoded[qual] = hashlib.sha256(src.encode()).hexdigest()[:16]
        params = [a.arg for a in fdef.args.args]
        frame = Frame(self._next_fid(thread), qual, self_val, {}, parent_frame)
        frame.retvar = retkey
        bind = {}
        defaults = fdef.args.defaults
        nd = len(defaults)
        pos = params[1:] if params and params[0] == "self" else params
        for i, p in enumerate(pos):
            if i < len(args):
                bind[p] = args[i]
            else:
                di = i - (len(pos) - nd)
                if di < 0:
                    raise TranslationError("missing argument %s for %s" % (p, qual))
                bind[p] = ("ast", defaults[di])
        frame.static = {}
        # kinds of receiver and arguments are fixed at build time (dry evaluation over a dummy state)
        copies = []      # (local key, arg spec) copied into the callee frame when the call is entered
        if isinstance(self_val, tuple) and self_val[0] == "ast":
            k = self.kind_of(thread, self_val[1], self_val[2])
            if k.kind == "ref":
                key = self.local_key_typed(thread, frame, "__self", ("ref", k.cls))
                copies.append((key, self_val))
                frame.self_val = ("key", key)
            elif k.kind in ("obj", "const"):
                frame.self_val = k
            else:
                raise TranslationError("receiver of %s has abstract kind %s" % (qual, k.kind))
        for p, spec in bind.items():
            if isinstance(spec, tuple) and spec[0] == "ast":
                fr = spec[2] if len(spec) > 2 else frame
                k = self.kind_of(thread, spec[1], fr)
            elif isinstance(spec, tuple) and spec[0] == "dyn":
                k = spec[1](self.dummy_ctx(thread, frame))
            else:
                k = spec
            if k.kind in ("obj", "const"):
                frame.static[p] = k
            elif k.kind == "tuple":
                if not (k.items and all(i.kind in ("ref", "set", "bool", "int") for i in k.items)):
                    raise TranslationError("tuple argument with members of kind %r in inlined call %s" % ([i.kind for i in k.items], qual))
                self.local_key_typed(thread, frame, p, ("tuple", [(i.kind, i.cls if i.kind in ("ref", "set") else None) for i in k.items]))
                for i, ck in enumerate(frame.tuples[p]):
                    copies.append((ck, ("tuplepart", spec, i)))
            else:
                key = self.local_key_typed(thread, frame, p, (k.kind, k.cls))
                copies.append((key, spec))
        binders = sorted((sub for sub in walk_own(fdef) if isinstance(sub, (ast.Assign, ast.For))), key=lambda n: (n.lineno, n.col_offset))
        for sub in binders:
            for tg in (sub.targets if isinstance(sub, ast.Assign) else [sub.target]):
                try:
                    self.predeclare(thread, frame, tg)
                except TranslationError:
                    # a local the front end has no declaration for (renamed or newly introduced): its abstract type is
                    # inferred from the expression it is bound to, evaluated dry over the locals declared so far
                    if isinstance(sub, ast.Assign) and isinstance(tg, ast.Name) and self.infer_local(thread, frame, tg.id, sub.value):
                        continue
                    if isinstance(sub, ast.Assign) and isinstance(tg, (ast.Tuple, ast.List)) and self.infer_unpacked(thread, frame, tg, sub.value):
                        continue
                    raise
        entry = self.build_block(thread, fdef.body, frame, next_idx, {"break": None, "continue": None, "return": next_idx},
                                 handlers or [], list(locks), qual)
        if not copies:
            return entry            # nothing to bind: the call is a pure jump
        en = self.add_node(thread, "enter", fdef, frame, qual)
        en.info = (copies, parent_frame)
        en.succ = entry
        en.exc = list(handlers or [])
        return en.idx

    def infer_unpacked(self, thread, frame, target, value_ast):
        """a, b = <tuple-valued expression>: the undeclared names among the targets get the kinds of the members"""
        try:
            k = self.kind_of(thread, value_ast, frame)
        except (TranslationError, KeyError, AttributeError, TypeError):
            return False
        if k.kind != "tuple" or len(k.items) != len(target.elts):
            return False
        for e, item in zip(target.elts, k.items):
            if not isinstance(e, ast.Name):
                return False
            if e.id in frame.locals or e.id in frame.tuples:
                continue
            if e.id in self.dom.local_types:
                self.local_key(thread, frame, e.id)
            elif item.kind in ("obj", "const"):
                self.local_key_typed(thread, frame, e.id, ("static", None))
            elif item.kind in ("ref", "set"):
                self.local_key_typed(thread, frame, e.id, (item.kind, item.cls))
            elif item.kind in ("bool", "int"):
                self.local_key_typed(thread, frame, e.id, (item.kind, None))
            else:
                return False
        return True

    def infer_local(self, thread, frame, name, value_ast):
        try:
            k = self.kind_of(thread, value_ast, frame)
        except (TranslationError, KeyError, AttributeError, TypeError):
            return False
        if k.kind in ("obj", "const"):
            typ = ("static", None)
        elif k.kind in ("ref", "set"):
            typ = (k.kind, k.cls)
        elif k.kind in ("bool", "int"):
            typ = (k.kind, None)
        elif k.kind == "tuple" and k.items and all(i.kind in ("ref", "set", "bool", "int") for i in k.items):
            typ = ("tuple", [(i.kind, i.cls if i.kind in ("ref", "set") else None) for i in k.items])
        else:
            return False
        self.local_key_typed(thread, frame, name, typ)
        return True

    def local_key_typed(self, thread, frame, name, typ):
        key = "%s.f%d.%s" % (thread.name, frame.fid, name)
        if typ[0] == "tuple":
            # a tuple-valued local is kept component-wise
            keys = []
            for i, comp in enumerate(typ[1]):
                ck = "%s#%d" % (key, i)
                thread.locals[ck] = comp
                keys.append(ck)
            frame.tuples[name] = keys
            return key
        thread.locals[key] = typ
        frame.locals[name] = key
        return key

    def kind_of(self, thread, node_ast, frame):
        return Evaluator(self).ev(node_ast, self.dummy_ctx(thread, frame), frame)

    def dummy_ctx(self, thread, frame):
        class Dummy(dict):
            def __init__(d, m, t):
                d.m, d.t = m, t

            def __missing__(d, key):
                sort = d.m.shared.get(key)
                if sort is None:
                    kind = d.t.locals[key][0]
                    sort = "bool" if kind == "bool" else "bv"
                v = z3.Bool("dummy!" + key) if sort == "bool" else z3.BitVec("dummy!" + key, BW)
                d[key] = v
                return v
        return Ctx(self, Dummy(self, thread), 0, thread, frame, bv(0))

    def _next_fid(self, thread):
        thread._fid = getattr(thread, "_fid", 0) + 1
        return thread._fid

    def build_block(self, thread, stmts, frame, next_idx, jumps, handlers, locks, func):
        """build nodes for stmts so that control continues at next_idx; returns the entry idx"""
        cur = next_idx
        for st in reversed(stmts):
            cur = self.build_stmt(thread, st, frame, cur, jumps, handlers, locks, func)
        return cur

    def _exc_edges(self, node, handlers):
        """handlers: list (innermost last) of (set of exception names or None for any, target idx)"""
        node.info = node.info
        node.exc = ("handlers", list(handlers))

    def build_stmt(self, thread, st, frame, nxt, jumps, handlers, locks, func):
        dom = self.dom
        if isinstance(st, ast.Expr):
            if isinstance(st.value, ast.Constant):
                return nxt           # docstring
            call = st.value
            if isinstance(call, ast.Call):
                name = dotted(call.func)
                if name in dom.skip_calls or (name and name.split(".")[-1] in ("debug", "info", "warning", "error", "exception") and name.split(".")[0] == "log"):
                    return nxt
                tgt = self.inline_target(call, frame)
                if tgt is not None:
                    cls, method, recv_ast = tgt
                    n = self.add_node(thread, "call", st, frame, func)
                    entry = self.build_call(thread, cls, method, ("ast", recv_ast, frame), [("ast", a, frame) for a in call.args], nxt, frame,
                                            None, handlers, locks)
                    return entry
            n = self.add_node(thread, "stmt", st, frame, func)
            n.succ = nxt
            n.exc = list(handlers)
            return n.idx
        if isinstance(st, (ast.Assign, ast.AugAssign, ast.Delete, ast.Pass, ast.Assert)):
            if isinstance(st, ast.Assign) and isinstance(st.value, ast.Call):
                tgt = self.inline_target(st.value, frame)
                if tgt is not None and len(st.targets) == 1 and isinstance(st.targets[0], ast.Name):
                    cls, method, recv_ast = tgt
                    key = self.local_key(thread, frame, st.targets[0].id)
                    return self.build_call(thread, cls, method, ("ast", recv_ast, frame), [("ast", a, frame) for a in st.value.args], nxt,
                                           frame, key, handlers, locks)
            if isinstance(st, ast.Assign) and len(st.targets) == 1 and isinstance(st.targets[0], ast.Subscript):
                # container[key] = value on a modelled class whose __setitem__ is read from the real source
                fake = ast.Call(func=ast.Attribute(value=st.targets[0].value, attr="__setitem__", ctx=ast.Load()), args=[], keywords=[])
                tgt = self.inline_target(fake, frame) if any(m == "__setitem__" for (_, m) in dom.inline) else None
                if tgt is not None:
                    cls, method, recv_ast = tgt
                    return self.build_call(thread, cls, method, ("ast", recv_ast, frame),
                                           [("ast", st.targets[0].slice, frame), ("ast", st.value, frame)], nxt, frame, None, handlers, locks)
            if isinstance(st, ast.Pass):
                return nxt
            if isinstance(st, ast.Assign):
                for tg in st.targets:
                    self.predeclare(thread, frame, tg)
                # locals declared 'static' hold constants: bind them now, independent of encoding order
                names = []
                for tg in st.targets:
                    names.extend([e.id for e in (tg.elts if isinstance(tg, (ast.Tuple, ast.List)) else [tg]) if isinstance(e, ast.Name)])
                if names and all(thread.locals.get(frame.locals.get(nm), ("", None))[0] == "static" for nm in names):
                    val = self.kind_of(thread, st.value, frame)
                    ctxd = None
                    tg = st.targets[0]
                    if isinstance(tg, ast.Name):
                        frame.static[tg.id] = val
                    elif val.kind == "tuple" and len(val.items) == len(tg.elts):
                        for e, v in zip(tg.elts, val.items):
                            frame.static[e.id] = v
                    else:
                        raise TranslationError("static assignment shape at line %d" % st.lineno)
                    return nxt
            n = self.add_node(thread, "stmt", st, frame, func)
            n.succ = nxt
            n.exc = list(handlers)
            return n.idx
        if isinstance(st, ast.If):
            then_e = self.build_block(thread, st.body, frame, nxt, jumps, handlers, locks, func)
            else_e = self.build_block(thread, st.orelse, frame, nxt, jumps, handlers, locks, func)
            n = self.add_node(thread, "branch", st.test, frame, func)
            n.succ, n.succ_false = then_e, else_e
            n.exc = list(handlers)
            return n.idx
        if isinstance(st, ast.While) and isinstance(st.test, ast.Constant) and st.test.value is True and not st.orelse:
            # `while True:` has no test to evaluate: the loop head is the first statement of the body
            hole = self.add_node(thread, "jump", st, frame, func)      # placeholder patched below
            j2 = dict(jumps)
            j2["break"] = nxt
            j2["continue"] = hole.idx
            body_e = self.build_block(thread, st.body, frame, hole.idx, j2, handlers, locks, func)
            hole.succ = body_e
            return body_e
        if isinstance(st, ast.While):
            head = self.add_node(thread, "branch", st.test, frame, func)
            j2 = dict(jumps)
            j2["break"] = nxt
            j2["continue"] = head.idx
            body_e = self.build_block(thread, st.body, frame, head.idx, j2, handlers, locks, func)
            head.succ, head.succ_false = body_e, nxt
            head.exc = list(handlers)
            if st.orelse:
                raise TranslationError("while/else")
            return head.idx
        if isinstance(st, ast.For):
            # for x in <iterable expression> : snapshot then iterate (lowest index first)
            if not isinstance(st.target, ast.Name):
                raise TranslationError("for target")
            itk = self.kind_of(thread, st.iter, frame)
            if itk.kind != "set":
                raise TranslationError("for-loop over %r (only snapshots of modelled sets are supported)" % (itk,))
            itkey = self.local_key_typed(thread, frame, "__iter%d" % st.lineno, ("set", itk.cls))
            xkey = frame.locals.get(st.target.id) or self.local_key_typed(thread, frame, st.target.id, ("ref", itk.cls))
            head = self.add_node(thread, "foriter", st, frame, func)
            head.info = (itkey, xkey)
            j2 = dict(jumps)
            j2["break"] = nxt
            j2["continue"] = head.idx
            body_e = self.build_block(thread, st.body, frame, head.idx, j2, handlers, locks, func)
            head.succ, head.succ_false = body_e, nxt
            snap = self.add_node(thread, "forsnap", st, frame, func)
            snap.info = itkey
            snap.succ = head.idx
            snap.exc = list(handlers)
            return snap.idx
        if isinstance(st, ast.Break):
            return self._unwind_to(thread, frame, jumps["break"], locks, jumps.get("locks_at_loop", locks), func, st)
        if isinstance(st, ast.Continue):
            return jumps["continue"]
        if isinstance(st, ast.Return) and st.value is None:
            return jumps["return"]
        if isinstance(st, ast.Return) and isinstance(st.value, ast.Call):
            tgt = self.inline_target(st.value, frame)
            if tgt is not None:
                # return self.helper(...): the helper's result becomes this function's result
                cls, method, recv_ast = tgt
                return self.build_call(thread, cls, method, ("ast", recv_ast, frame), [("ast", a, frame) for a in st.value.args],
                                       jumps["return"], frame, frame.retvar, handlers, locks)
        if isinstance(st, ast.Return):
            n = self.add_node(thread, "ret", st, frame, func)
            n.succ = self._release_all(thread, frame, jumps["return"], locks if frame.parent is not None or True else [], func, st, jumps)
            n.exc = list(handlers)
            return n.idx
        if isinstance(st, ast.Raise):
            n = self.add_node(thread, "raise", st, frame, func)
            n.exc = list(handlers)
            return n.idx
        if isinstance(st, ast.With):
            if len(st.items) != 1:
                raise TranslationError("with several items")
            lock_ast = st.items[0].context_expr
            rel = self.add_node(thread, "release", lock_ast, frame, func)
            rel.succ = nxt
            # an exception inside the body releases the lock, then continues to the outer handlers
            relx = self.add_node(thread, "release_exc", lock_ast, frame, func)
            relx.exc = list(handlers)
            j2 = dict(jumps)
            if jumps["break"] is not None:
                rb = self.add_node(thread, "release", lock_ast, frame, func)
                rb.succ = jumps["break"]
                j2["break"] = rb.idx
            rr = self.add_node(thread, "release", lock_ast, frame, func)
            rr.succ = jumps["return"]
            j2["return"] = rr.idx
            body_e = self.build_block(thread, st.body, frame, rel.idx, j2, handlers + [(None, relx.idx)], locks + [lock_ast], func)
            acq = self.add_node(thread, "acquire", lock_ast, frame, func)
            acq.succ = body_e
            return acq.idx
        if isinstance(st, ast.Try):
            after = nxt
            j_in = jumps
            outer = list(handlers)
            if st.finalbody:
                # the finally block is copied once per way of leaving the try statement (like the lock release of `with`):
                # normal completion, an exception on its way out (re-raised afterwards), return, break, continue
                after = self.build_block(thread, st.finalbody, frame, nxt, jumps, handlers, locks, func)
                rr = ast.Raise(exc=None, cause=None, lineno=-1, col_offset=0)     # synthetic: no source line of its own
                reraise = self.add_node(thread, "raise", rr, frame, func)
                reraise.exc = list(handlers)
                f_exc = self.build_block(thread, st.finalbody, frame, reraise.idx, jumps, handlers, locks, func)
                outer = list(handlers) + [(None, f_exc)]
                j_in = dict(jumps)
                for key in ("return", "break", "continue"):
                    if jumps.get(key) is not None:
                        j_in[key] = self.build_block(thread, st.finalbody, frame, jumps[key], jumps, handlers, locks, func)
            body_next = after
            if st.orelse:
                # exceptions of the else block are not caught by this statement's handlers
                body_next = self.build_block(thread, st.orelse, frame, after, j_in, outer, locks, func)
            hs = []
            for h in st.handlers:
                names = None
                if h.type is not None:
                    names = set(exc_names(h.type))
                hb = self.build_block(thread, h.body, frame, after, j_in, outer, locks, func)
                hs.append((names, hb))
            # innermost handlers are consulted first: append in reverse so that the first matching wins
            inner = list(outer) + list(reversed(hs))
            return self.build_block(thread, st.body, frame, body_next, j_in, inner, locks, func)
        if isinstance(st, (ast.Global, ast.Nonlocal, ast.Import, ast.ImportFrom)):
            return nxt
        if isinstance(st, ast.FunctionDef):
            # a nested helper: calls to it must be modelled by the domain (dom.functions[name])
            if st.name not in self.dom.functions:
                raise TranslationError("nested function %s has no model" % st.name)
            return nxt
        raise TranslationError("statement form %s at line %d is not supported by the schedule front end" % (type(st).__name__, st.lineno))

    def predeclare(self, thread, frame, target):
        if isinstance(target, ast.Name):
            if target.id not in frame.locals and target.id not in frame.tuples:
                self.local_key(thread, frame, target.id)
        elif isinstance(target, (ast.Tuple, ast.List)):
            for e in target.elts:
                self.predeclare(thread, frame, e)

    def _unwind_to(self, thread, frame, target, locks, keep, func, st):
        return target

    def _release_all(self, thread, frame, target, locks, func, st, jumps):
        return target

    def finalize(self):
        """resolve pure jump nodes (loop back edges, empty calls) so that they do not cost a step"""
        for t in self.threads:
            def res(i):
                seen = 0
                while i is not None and t.nodes[i].kind == "jump" and seen < 100:
                    i = t.nodes[i].succ
                    seen += 1
                return i
            for n in t.nodes:
                if n.succ is not None:
                    n.succ = res(n.succ)
                if n.succ_false is not None:
                    n.succ_false = res(n.succ_false)
                if isinstance(n.exc, list):
                    n.exc = [(names, res(tg)) for names, tg in n.exc]
            t.entry = res(t.entry)

    def inline_target(self, call, frame):
        """(cls, method, receiver ast) if the call is to an inlinable method of a modelled class"""
        if not isinstance(call.func, ast.Attribute):
            return None
        method = call.func.attr
        for (cls, m) in self.dom.inline:
            if m == method and self.dom.receiver_is(call.func.value, frame, cls):
                return cls, method, call.func.value
        # a sibling method the front end was not told about (a helper extracted by a refactoring, say): it is read from
        # the real class and inlined like the declared ones, unless the domain models that call abstractly
        for cls, pycls in getattr(self.dom, "pyclasses", {}).items():
            if (cls, method) in self.dom.methods or not self.dom.receiver_is(call.func.value, frame, cls):
                continue
            for k in pycls.__mro__:
                f = k.__dict__.get(method)
                if f is not None and k.__module__.startswith("Pyro5"):
                    if isinstance(f, (staticmethod, classmethod)):
                        f = f.__func__
                    if inspect.isfunction(f):
                        self.dom.inline[(cls, method)] = load_method(k, method)
                        return cls, method, call.func.value
        return None


def walk_own(fdef):
    """all nodes of a function body, not descending into nested function definitions"""
    todo = list(fdef.body)
    while todo:
        n = todo.pop()
        if isinstance(n, (ast.FunctionDef, ast.Lambda, ast.ClassDef)):
            continue
        yield n
        for c in ast.iter_child_nodes(n):
            if not isinstance(c, (ast.FunctionDef, ast.Lambda, ast.ClassDef)):
                todo.append(c)


def dotted(n):
    if isinstance(n, ast.Name):
        return n.id
    if isinstance(n, ast.Attribute):
        b = dotted(n.value)
        return None if b is None else b + "." + n.attr
    return None


def exc_names(t):
    if isinstance(t, ast.Tuple):
        out = []
        for e in t.elts:
            out.extend(exc_names(e))
        return out
    d = dotted(t)
    return [d.split(".")[-1]] if d else []


def load_method(cls_obj, name):
    f = cls_obj.__dict__[name]
    if isinstance(f, (staticmethod, classmethod)):
        f = f.__func__
    src = textwrap.dedent(inspect.getsource(f))
    tree = ast.parse(src).body[0]
    # real line numbers
    ast.increment_lineno(tree, f.__code__.co_firstlineno - tree.lineno)
    return tree, "%s.%s" % (f.__module__, f.__qualname__), src


# ------------------------------------------------------------------------------------------------
# symbolic evaluation of one node

class Evaluator:
    def __init__(self, machine):
        self.m = machine
        self.dom = machine.dom

    # ---- values ----
    def static(self, ctx, frame, name):
        f = frame
        while f is not None:
            if name in f.static:
                v = f.static[name]
                return v
            f = None
        return None

    def ev(self, node, ctx, frame=None):
        frame = frame or ctx.frame
        dom = self.dom
        if isinstance(node, ast.Constant):
            v = node.value
            if isinstance(v, bool):
                return A_bool(v)
            if isinstance(v, int):
                return A_int(v)
            return A_const(v)
        if isinstance(node, ast.Name):
            if node.id == "self":
                return self.resolve_arg(frame.self_val, ctx)
            if node.id in frame.tuples:
                return AV("tuple", items=[AV(ctx.thread.locals[ck][0], ctx.get(ck), ctx.thread.locals[ck][1]) for ck in frame.tuples[node.id]])
            if node.id in frame.locals:
                key = frame.locals[node.id]
                kind, cls = ctx.thread.locals[key]
                if kind == "static":
                    if node.id not in frame.static:
                        raise TranslationError("static local %s read before assignment" % node.id)
                    return frame.static[node.id]
                return AV(kind, ctx.get(key), cls, origin=("local", key))
            if node.id in frame.static:
                return self.resolve_arg(frame.static[node.id], ctx)
            if node.id in dom.consts:
                return dom.consts[node.id]
            raise TranslationError("unknown name %r in %s (line %d)" % (node.id, frame.func, node.lineno))
        if isinstance(node, ast.Attribute):
            d = dotted(node)
            if d in dom.consts:
                return dom.consts[d]
            base = self.ev(node.value, ctx, frame)
            return self.getfield(base, node.attr, ctx)
        if isinstance(node, ast.Call):
            return self.call(node, ctx, frame)
        if isinstance(node, ast.Compare):
            left = self.ev(node.left, ctx, frame)
            res = None
            for op, rn in zip(node.ops, node.comparators):
                right = self.ev(rn, ctx, frame)
                c = self.compare(op, left, right, ctx)
                res = c if res is None else z3.And(res, c)
                left = right
            return A_bool(res)
        if isinstance(node, ast.BoolOp):
            vals = [self.ev(v, ctx, frame) for v in node.values]
            if isinstance(node.op, ast.Or) and len(vals) == 2 and vals[0].kind in ("ref", "set") and vals[1].kind == "const" \
                    and vals[1].term in (None, "emptyset"):
                return vals[0]      # `x or <empty default>`: abstractly "nothing" is one value (the None reference / the empty set)
            ts = [truthy(v, dom) for v in vals]
            # only the truth value is used in the supported contexts
            return A_bool(z3.And(*ts) if isinstance(node.op, ast.And) else z3.Or(*ts))
        if isinstance(node, ast.UnaryOp) and isinstance(node.op, ast.Not):
            return A_bool(z3.Not(truthy(self.ev(node.operand, ctx, frame), dom)))
        if isinstance(node, ast.BinOp) and isinstance(node.op, (ast.Add, ast.Sub)):
            a, b = self.ev(node.left, ctx, frame), self.ev(node.right, ctx, frame)
            if a.kind == "int" and b.kind == "int":
                return A_int(a.term + b.term if isinstance(node.op, ast.Add) else a.term - b.term)
            if a.kind == "const" and isinstance(a.term, str) or b.kind == "const" and isinstance(b.term, str):
                return A_const("<text>")
        if isinstance(node, ast.List) and not node.elts:
            return A_const("emptyset")
        if isinstance(node, ast.Tuple):
            return AV("tuple", items=[self.ev(e, ctx, frame) for e in node.elts])
        if isinstance(node, ast.IfExp):
            c = truthy(self.ev(node.test, ctx, frame), dom)
            a, b = self.ev(node.body, ctx, frame), self.ev(node.orelse, ctx, frame)
            return self.mux(c, a, b)
        if isinstance(node, ast.ListComp) and len(node.generators) == 1 and not node.generators[0].is_async \
                and isinstance(node.generators[0].target, ast.Name) and isinstance(node.elt, ast.Name) \
                and node.elt.id == node.generators[0].target.id:
            # [x for x in S if cond(x)] over a modelled set: the subset of the members for which the conditions hold
            gen = node.generators[0]
            src = self.ev(gen.iter, ctx, frame)
            if src.kind != "set":
                raise TranslationError("list comprehension over %r" % (src,))
            var = gen.target.id
            saved = frame.static.get(var)
            had_local = frame.locals.pop(var, None)
            mask = bv(0)
            try:
                for i in range(dom.count(src.cls)):
                    frame.static[var] = AV("ref", bv(i), src.cls)
                    keep = z3.Extract(i, i, src.term) == z3.BitVecVal(1, 1)
                    for cond in gen.ifs:
                        keep = z3.And(keep, truthy(self.ev(cond, ctx, frame), dom))
                    mask = mask | z3.If(keep, bv(1 << i), bv(0))
            finally:
                if saved is None:
                    frame.static.pop(var, None)
                else:
                    frame.static[var] = saved
                if had_local is not None:
                    frame.locals[var] = had_local
            return AV("set", mask, src.cls)
        if isinstance(node, ast.Subscript):
            base = self.ev(node.value, ctx, frame)
            if base.kind == "tuple" and isinstance(node.slice, ast.Constant) and isinstance(node.slice.value, int) \
                    and -len(base.items) <= node.slice.value < len(base.items):
                return base.items[node.slice.value]
            idx = self.ev(node.slice, ctx, frame)
            h = dom.methods.get((base.kind if base.kind != "obj" else base.cls, "__getitem__"))
            if h is None:
                raise TranslationError("subscript on %r" % (base,))
            return h(self, ctx, base, [idx])
        raise TranslationError("expression form %s (line %d) is not supported by the schedule front end" % (type(node).__name__, getattr(node, "lineno", 0)))

    def resolve_arg(self, v, ctx):
        if isinstance(v, AV):
            return v
        if isinstance(v, tuple) and v[0] == "ast":
            fr = v[2] if len(v) > 2 else ctx.frame
            return self.ev(v[1], ctx, fr)
        if isinstance(v, tuple) and v[0] == "key":
            kind, cls = ctx.thread.locals[v[1]]
            return AV(kind, ctx.get(v[1]), cls)
        raise TranslationError("cannot resolve %r" % (v,))

    def mux(self, c, a, b):
        if a.kind == "const" and b.kind == "const" and a.term == b.term:
            return a
        if a.kind == "const" and a.term is None and b.kind == "ref":
            a = AV("ref", bv(self.dom.count(b.cls)), b.cls)
        if b.kind == "const" and b.term is None and a.kind == "ref":
            b = AV("ref", bv(self.dom.count(a.cls)), a.cls)
        if a.kind != b.kind:
            raise TranslationError("if-expression over different abstract kinds %r / %r" % (a, b))
        if a.kind == "tuple":
            return AV("tuple", items=[self.mux(c, x, y) for x, y in zip(a.items, b.items)])
        return AV(a.kind, z3.If(c, a.term, b.term), a.cls)

    def getfield(self, base, attr, ctx):
        dom = self.dom
        if base.kind == "obj":
            cls = base.cls
            spec = dom.classes[cls]
            if attr not in spec["fields"]:
                raise TranslationError("field %s.%s is not modelled" % (cls, attr))
            kind, c2 = spec["fields"][attr]
            if kind == "obj":
                return AV("obj", None, c2)
            if kind == "value":
                return c2
            if kind == "lock":
                k0 = self.m.field_key(cls, 0, attr)
                return AV("lock", (k0 + ".owner", k0 + ".depth", bool(c2)))
            return AV(kind, ctx.get(self.m.field_key(cls, 0, attr)), c2, origin=("field", base, attr))
        if base.kind == "ref":
            cls = base.cls
            spec = dom.classes[cls]
            if attr not in spec["fields"]:
                raise TranslationError("field %s.%s is not modelled" % (cls, attr))
            kind, c2 = spec["fields"][attr]
            if kind == "obj":
                return AV("obj", None, c2)
            n = spec["n"]
            t = ctx.get(self.m.field_key(cls, n - 1, attr))
            for i in range(n - 2, -1, -1):
                t = z3.If(base.term == bv(i), ctx.get(self.m.field_key(cls, i, attr)), t)
            return AV(kind, t, c2, origin=("field", base, attr))
        raise TranslationError("attribute %s of %r" % (attr, base))

    def setfield(self, base, attr, val, ctx):
        dom = self.dom
        cls = base.cls
        spec = dom.classes[cls]
        if attr not in spec["fields"]:
            raise TranslationError("assignment to un-modelled field %s.%s" % (cls, attr))
        kind, c2 = spec["fields"][attr]
        if kind in ("ignore", "obj"):
            return
        if kind == "event":
            kind = "bool"
        val = self.coerce(val, kind, c2)
        if base.kind == "obj":
            ctx.set(self.m.field_key(cls, 0, attr), val.term)
            return
        n = spec["n"]
        for i in range(n):
            key = self.m.field_key(cls, i, attr)
            ctx.set(key, z3.If(base.term == bv(i), val.term, ctx.get(key)))

    def store_back(self, ctx, recv, term):
        """write a mutated set/event back to where the receiver expression came from"""
        o = recv.origin
        if o is None:
            raise TranslationError("mutation of a value that is not a variable or field: %r" % (recv,))
        if o[0] == "local":
            ctx.set(o[1], term)
        else:
            self.setfield(o[1], o[2], AV("bool" if recv.kind == "event" else recv.kind, term, recv.cls), ctx)

    def coerce(self, val, kind, cls):
        if val.kind == kind:
            return val
        if kind == "bool" and val.kind == "event":
            return val
        if kind == "ref" and val.kind == "const" and val.term is None:
            return AV("ref", bv(self.dom.count(cls)), cls)
        if kind == "bool" and val.kind == "const" and isinstance(val.term, bool):
            return A_bool(val.term)
        if kind == "set" and val.kind == "const" and val.term == "emptyset":
            return AV("set", bv(0), cls)
        raise TranslationError("cannot store %r as %s/%s" % (val, kind, cls))

    def compare(self, op, a, b, ctx):
        dom = self.dom
        if isinstance(op, (ast.Is, ast.IsNot, ast.Eq, ast.NotEq)):
            neg = isinstance(op, (ast.IsNot, ast.NotEq))
            if b.kind == "const" and b.term is None:
                a, b = b, a
            if a.kind == "const" and a.term is None:
                if b.kind == "ref":
                    c = b.term == bv(dom.count(b.cls))
                elif b.kind == "const":
                    c = z3.BoolVal(b.term is None)
                else:
                    c = z3.BoolVal(False)
            elif a.kind == b.kind and a.kind in ("ref", "int", "set"):
                c = a.term == b.term
            elif a.kind == "bool" and b.kind == "bool":
                c = a.term == b.term
            elif a.kind == "const" and b.kind == "const":
                c = z3.BoolVal(a.term == b.term)
            elif a.kind == "const" or b.kind == "const":
                h = dom.functions.get("eq_const")
                if h is None:
                    raise TranslationError("comparison %r == %r" % (a, b))
                c = h(self, ctx, [a, b])
            else:
                raise TranslationError("comparison %r == %r" % (a, b))
            return z3.Not(c) if neg else c
        if isinstance(op, (ast.Lt, ast.LtE, ast.Gt, ast.GtE)):
            if a.kind != "int" or b.kind != "int":
                raise TranslationError("ordering of %r and %r" % (a, b))
            f = {ast.Lt: z3.ULT, ast.LtE: z3.ULE, ast.Gt: z3.UGT, ast.GtE: z3.UGE}[type(op)]
            return f(a.term, b.term)
        if isinstance(op, (ast.In, ast.NotIn)) and b.kind == "tuple":
            # membership in a literal tuple: one equality per member
            c = z3.BoolVal(False)
            for item in b.items:
                if a.kind == "const" and item.kind == "const":
                    c = z3.Or(c, z3.BoolVal(a.term == item.term))
                else:
                    c = z3.Or(c, self.compare(ast.Eq(), a, item, ctx))
            return z3.Not(c) if isinstance(op, ast.NotIn) else c
        if isinstance(op, (ast.In, ast.NotIn)):
            h = dom.methods.get((b.kind if b.kind != "obj" else b.cls, "__contains__"))
            if h is None:
                raise TranslationError("membership test in %r" % (b,))
            c = truthy(h(self, ctx, b, [a]), dom)
            return z3.Not(c) if isinstance(op, ast.NotIn) else c
        raise TranslationError("comparison operator %s" % type(op).__name__)

    def call(self, node, ctx, frame):
        dom = self.dom
        name = dotted(node.func)
        if isinstance(node.func, ast.Name) or (name and name in dom.functions):
            h = dom.functions.get(name)
            if h is None:
                raise TranslationError("call of %r (line %d) is not modelled" % (name, node.lineno))
            return h(self, ctx, [self.ev(a, ctx, frame) for a in node.args])
        if isinstance(node.func, ast.Attribute):
            recv = self.ev(node.func.value, ctx, frame)
            key = (recv.kind if recv.kind not in ("obj", "ref") else recv.cls, node.func.attr)
            h = dom.methods.get(key)
            if h is None and recv.kind in ("ref", "obj"):
                # pure single-return method evaluated as an expression
                inl = dom.inline.get((recv.cls, node.func.attr))
                if inl is not None:
                    fdef = inl[0]
                    body = [s for s in fdef.body if not (isinstance(s, ast.Expr) and isinstance(s.value, ast.Constant))]
                    if len(body) == 1 and isinstance(body[0], ast.Return):
                        self.m.encoded[inl[1]] = hashlib.sha256(inl[2].encode()).hexdigest()[:16]
                        f2 = Frame(-1, inl[1], recv, {})
                        return self.ev(body[0].value, ctx, f2)
            if h is None:
                raise TranslationError("method %s of %r (line %d) is not modelled" % (node.func.attr, recv, node.lineno))
            ctx.kwargs = {k.arg: self.ev(k.value, ctx, frame) for k in node.keywords}
            return h(self, ctx, recv, [self.ev(a, ctx, frame) for a in node.args])
        raise TranslationError("call form at line %d" % node.lineno)

    # ---- statements ----
    def assign(self, target, val, ctx, frame):
        if isinstance(target, ast.Name) and target.id in frame.tuples:
            keys = frame.tuples[target.id]
            if val.kind != "tuple" or len(val.items) != len(keys):
                raise TranslationError("tuple local %s gets %r" % (target.id, val))
            for ck, item in zip(keys, val.items):
                kind, cls = ctx.thread.locals[ck]
                ctx.set(ck, self.coerce(item, kind, cls).term)
            return
        if isinstance(target, ast.Name):
            key = frame.locals[target.id]
            kind, cls = ctx.thread.locals[key]
            if kind == "static":
                if val.kind not in ("const", "obj", "tuple"):
                    raise TranslationError("local %s is declared static but gets %r" % (target.id, val))
                frame.static[target.id] = val
                return
            ctx.set(key, self.coerce(val, kind, cls).term)
        elif isinstance(target, ast.Attribute):
            base = self.ev(target.value, ctx, frame)
            self.setfield(base, target.attr, val, ctx)
        elif isinstance(target, ast.Tuple):
            if val.kind != "tuple" or len(val.items) != len(target.elts):
                raise TranslationError("tuple assignment shape")
            for t, v in zip(target.elts, val.items):
                self.assign(t, v, ctx, frame)
        elif isinstance(target, ast.Subscript):
            base = self.ev(target.value, ctx, frame)
            idx = self.ev(target.slice, ctx, frame)
            h = self.dom.methods.get((base.kind if base.kind != "obj" else base.cls, "__setitem__"))
            if h is None:
                raise TranslationError("subscript assignment on %r" % (base,))
            h(self, ctx, base, [idx, val])
        else:
            raise TranslationError("assignment target %s" % type(target).__name__)

    def exec_stmt(self, st, ctx, frame):
        if isinstance(st, ast.Assign):
            val = self.ev(st.value, ctx, frame)
            # evaluate fully first (python evaluates the right-hand side before any store)
            for t in st.targets:
                self.assign(t, val, ctx, frame)
        elif isinstance(st, ast.Expr):
            self.ev(st.value, ctx, frame)
        elif isinstance(st, ast.Delete):
            for t in st.targets:
                if not isinstance(t, ast.Subscript):
                    raise TranslationError("del of non-subscript")
                base = self.ev(t.value, ctx, frame)
                idx = self.ev(t.slice, ctx, frame)
                h = self.dom.methods.get((base.kind if base.kind != "obj" else base.cls, "__delitem__"))
                if h is None:
                    raise TranslationError("del on %r" % (base,))
                h(self, ctx, base, [idx])
        elif isinstance(st, ast.AugAssign):
            cur = self.ev(st.target, ctx, frame)
            v = self.ev(st.value, ctx, frame)
            if cur.kind == "int" and v.kind == "int" and isinstance(st.op, (ast.Add, ast.Sub)):
                self.assign(st.target, A_int(cur.term + v.term if isinstance(st.op, ast.Add) else cur.term - v.term), ctx, frame)
            else:
                raise TranslationError("augmented assignment")
        elif isinstance(st, ast.Assert):
            pass
        else:
            raise TranslationError("statement %s" % type(st).__name__)


# ------------------------------------------------------------------------------------------------
# transition relation and bounded model checking

class Encoder:
    def __init__(self, machine, exc_codes):
        self.m = machine
        self.ev = Evaluator(machine)
        self.exc_codes = exc_codes            # name -> int >= 2
        self.nthreads = len(machine.threads)
        self.vars = dict(machine.shared)      # key -> sort
        self.init = dict(machine.init)
        for key, v in list(self.init.items()):
            if v is None:                      # lock owner: "free" = number of threads
                self.init[key] = bv(self.nthreads)
        for ti, t in enumerate(machine.threads):
            self.vars[t.name + ".pc"] = "bv"
            self.init[t.name + ".pc"] = bv(t.entry)
            self.vars[t.name + ".outcome"] = "bv"     # 0 running, 1 finished normally, >= 2 escaped exception
            self.init[t.name + ".outcome"] = bv(0)
            self.vars[t.name + ".exc"] = "bv"
            self.init[t.name + ".exc"] = bv(0)
            for key, (kind, cls) in t.locals.items():
                self.vars[key] = "bool" if kind == "bool" else "bv"
                if kind == "static":
                    del self.vars[key]
                    continue
                if kind == "bool":
                    self.init[key] = z3.BoolVal(False)
                elif kind == "ref":
                    self.init[key] = bv(machine.dom.count(cls))
                else:
                    self.init[key] = bv(0)
        self.untranslated = {}
        self.extra_guards = {}     # thread name -> f(state) -> z3 bool (thread may run at all)
        self.enabled_at = []

    def state_vars(self, k):
        out = {}
        for key, sort in self.vars.items():
            out[key] = z3.Bool("%s@%d" % (key, k)) if sort == "bool" else z3.BitVec("%s@%d" % (key, k), BW)
        return out

    def lock_keys(self, lock_av):
        return lock_av.term        # ('lock', ownerkey, depthkey, reentrant)

    def fire(self, t, ti, node, state, nd):
        """returns (guard, updates dict) for thread t executing node from `state`"""
        m, ev = self.m, self.ev
        ctx = Ctx(m, state, ti, t, node.frame, nd)
        pc = t.name + ".pc"
        guard = z3.BoolVal(True)
        nxt = None
        k = node.kind
        try:
            if k == "stmt":
                ev.exec_stmt(node.ast, ctx, node.frame)
                nxt = bv(node.succ)
            elif k == "branch":
                c = truthy(ev.ev(node.ast, ctx, node.frame), m.dom)
                nxt = z3.If(c, bv(node.succ), bv(node.succ_false))
            elif k in ("acquire", "release", "release_exc"):
                lock = ev.ev(node.ast, ctx, node.frame)
                if lock.kind != "lock":
                    raise TranslationError("with-statement on something that is not a modelled lock: %r" % (lock,))
                okey, dkey, reentrant = lock.term
                owner, depth = ctx.get(okey), ctx.get(dkey)
                me = bv(ti)
                free = owner == bv(self.nthreads)
                if k == "acquire":
                    guard = z3.Or(free, z3.And(owner == me, z3.BoolVal(reentrant)))
                    ctx.set(okey, me)
                    ctx.set(dkey, depth + bv(1))
                    nxt = bv(node.succ)
                else:
                    ctx.set(dkey, depth - bv(1))
                    ctx.set(okey, z3.If(depth == bv(1), bv(self.nthreads), owner))
                    if k == "release":
                        nxt = bv(node.succ)
                    else:
                        # re-raise the exception in flight to the outer handlers
                        ctx.exc.append((z3.BoolVal(True), ("inflight", ctx.get(t.name + ".exc"))))
                        nxt = bv(0)
            elif k == "forsnap":
                it = ev.ev(node.ast.iter, ctx, node.frame)
                if it.kind != "set":
                    raise TranslationError("for-loop over %r (only snapshots of modelled sets are supported)" % (it,))
                ctx.set(node.info, it.term)
                nxt = bv(node.succ)
            elif k == "foriter":
                itkey, xkey = node.info
                it = ctx.get(itkey)
                empty = it == bv(0)
                kind, cls = t.locals[xkey]
                n = m.dom.count(cls)
                low = bv(n)
                for i in range(n - 1, -1, -1):
                    low = z3.If(z3.Extract(i, i, it) == z3.BitVecVal(1, 1), bv(i), low)
                ctx.set(xkey, z3.If(empty, ctx.get(xkey), low))
                ctx.set(itkey, it & (it - bv(1)))
                nxt = z3.If(empty, bv(node.succ_false), bv(node.succ))
            elif k == "enter":
                copies, parent = node.info
                for key, spec in copies:
                    part = None
                    if not isinstance(spec, AV) and spec[0] == "tuplepart":
                        part = spec[2]
                        spec = spec[1]
                    if isinstance(spec, AV):
                        val = spec
                    elif spec[0] == "dyn":
                        val = spec[1](ctx)
                    else:
                        val = ev.ev(spec[1], ctx, spec[2] if len(spec) > 2 else parent)
                    if part is not None:
                        val = val.items[part]
                    kind, cls = t.locals[key]
                    ctx.set(key, ev.coerce(val, kind, cls).term)
                nxt = bv(node.succ)
            elif k == "ret":
                st = node.ast
                fr = node.frame
                if st.value is not None and fr.retvar is not None and fr.retvar not in t.locals and (fr.retvar + "#0") in t.locals:
                    # the caller keeps the result in a tuple-valued local
                    val = ev.ev(st.value, ctx, fr)
                    comps = [k2 for k2 in t.locals if k2.startswith(fr.retvar + "#")]
                    if val.kind != "tuple" or len(val.items) != len(comps):
                        raise TranslationError("tuple result expected, got %r" % (val,))
                    for i, item in enumerate(val.items):
                        kind, cls = t.locals["%s#%d" % (fr.retvar, i)]
                        ctx.set("%s#%d" % (fr.retvar, i), ev.coerce(item, kind, cls).term)
                elif st.value is not None and fr.retvar is not None:
                    val = ev.ev(st.value, ctx, fr)
                    kind, cls = t.locals[fr.retvar]
                    ctx.set(fr.retvar, ev.coerce(val, kind, cls).term)
                elif st.value is not None and fr.parent is None and getattr(t, "result_var", None):
                    val = ev.ev(st.value, ctx, fr)
                    kind, cls = t.locals[t.result_var]
                    ctx.set(t.result_var, ev.coerce(val, kind, cls).term)
                nxt = bv(node.succ)
            elif k == "raise":
                st = node.ast
                if st.exc is None:
                    ctx.exc.append((z3.BoolVal(True), ("inflight", ctx.get(t.name + ".exc"))))
                else:
                    e = st.exc.func if isinstance(st.exc, ast.Call) else st.exc
                    nm = dotted(e).split(".")[-1]
                    ctx.exc.append((z3.BoolVal(True), nm))
                nxt = bv(0)
            elif k == "jump":
                nxt = bv(node.succ)
            elif k == "hbranch":
                c = node.info(ctx)
                nxt = z3.If(c, bv(node.succ), bv(node.succ_false))
            elif k == "set":
                # harness node: list of (key, term-producing function)
                for key, f in node.info:
                    ctx.set(key, f(ctx))
                nxt = bv(node.succ)
            elif k == "end":
                ctx.set(t.name + ".outcome", bv(1))
                nxt = bv(node.idx)
            else:
                raise TranslationError("node kind %s" % k)
        except TranslationError as x:
            raise TranslationError("%s [%s line %d]" % (x, node.func, node.line))
        guard = z3.And(guard, ctx.guard)
        self._choice = ctx.choice
        # exceptions raised by this node
        upd = ctx.upd
        newpc = nxt
        outcome = ctx.get(t.name + ".outcome")
        excv = ctx.get(t.name + ".exc")
        handlers = node.exc if isinstance(node.exc, list) else []
        for cond, name in reversed(ctx.exc):
            if isinstance(name, tuple):        # exception in flight: dynamic code
                code = name[1]
                tgt = None
                # find the innermost catch-all or decide per possible code
                newpc_e, outcome_e = self.dispatch_dynamic(code, handlers)
            else:
                code = bv(self.exc_codes[name])
                newpc_e, outcome_e = self.dispatch_static(name, handlers)
            newpc = z3.If(cond, newpc_e, newpc)
            outcome = z3.If(cond, outcome_e if outcome_e is not None else outcome, outcome)
            excv = z3.If(cond, code, excv)
            # a statement that raises has no other effect (operations raise before they mutate);
            # the release of a lock on the way out of a with-block is the exception to that rule
            if k != "release_exc":
                for key in list(upd.keys()):
                    upd[key] = z3.If(cond, state[key], upd[key])
        upd[pc] = newpc
        upd[t.name + ".outcome"] = outcome
        upd[t.name + ".exc"] = excv
        return guard, ctx.choice, upd

    def dispatch_static(self, name, handlers):
        for names, tgt in reversed(handlers):
            if names is None or name in names or "Exception" in names or "BaseException" in names or self.is_sub(name, names):
                return bv(tgt), None
        return bv(0), bv(self.exc_codes[name])

    def is_sub(self, name, names):
        sup = self.m.dom.exc_parents.get(name, ())
        return any(s in names for s in sup)

    def dispatch_dynamic(self, code, handlers):
        # build an if-chain over all known exception codes
        pcs, outs = bv(0), code
        for nm, c in self.exc_codes.items():
            p, o = self.dispatch_static(nm, handlers)
            pcs = z3.If(code == bv(c), p, pcs)
            outs = z3.If(code == bv(c), o if o is not None else bv(0), outs)
        # outcome 0 means "handled": keep running
        return pcs, outs

    def enabled_terms(self, state, nd):
        """per thread: (enabled condition, updates) -- big disjunction over nodes"""
        res = []
        for ti, t in enumerate(self.m.threads):
            pcv = state[t.name + ".pc"]
            running = state[t.name + ".outcome"] == bv(0)
            eg = self.extra_guards.get(t.name)
            if eg is not None:
                running = z3.And(running, eg(state))
            en = z3.BoolVal(False)
            ch = z3.BoolVal(True)
            upd = {}
            for node in t.nodes:
                if node.kind in ("call", "jump"):
                    continue
                self.m.accessed = set()
                try:
                    g, c, u = self.fire(t, ti, node, state, nd)
                except TranslationError as x:
                    # not translatable: reaching this node is reported (it must be unreachable for a verdict)
                    self.untranslated[(t.name, node.idx)] = str(x)
                    g, c = z3.BoolVal(True), z3.BoolVal(True)
                    u = {t.name + ".outcome": bv(UNTRANSLATED), t.name + ".pc": bv(node.idx), t.name + ".exc": state[t.name + ".exc"]}
                acc = {k for k in self.m.accessed if not k.startswith(t.name + ".")}
                if not acc and node.kind not in ("end",):
                    self.m.local_nodes.setdefault(t.name, set()).add(node.idx)
                at = pcv == bv(node.idx)
                en = z3.Or(en, z3.And(at, g))
                ch = z3.And(ch, z3.Implies(at, c))
                for key, term in u.items():
                    upd[key] = z3.If(at, term, upd.get(key, state[key]))
            res.append((z3.And(running, en), ch, upd))
        return res

    def unroll(self, K, safety, final, solver, progress=None):
        """adds the K-step transition system to `solver`; returns (states, tids, nds)"""
        states = [self.state_vars(0)]
        for key, term in self.init.items():
            if isinstance(term, str) and term == "free":
                continue                      # arbitrary initial value (constrained by the harness)
            solver.add(states[0][key] == term)
        tids, nds = [], []
        NT = self.nthreads
        for k in range(K):
            s = states[k]
            s2 = self.state_vars(k + 1)
            tid = z3.BitVec("tid@%d" % k, BW)
            nd = z3.BitVec("nd@%d" % k, BW)
            tids.append(tid)
            nds.append(nd)
            et = self.enabled_terms(s, nd)
            any_enabled = z3.Or(*[e for e, _, _ in et])
            cases = []
            for ti, (en, ch, upd) in enumerate(et):
                eqs = [s2[key] == upd.get(key, s[key]) for key in self.vars]
                cases.append(z3.And(tid == bv(ti), en, ch, *eqs))
            stutter = z3.And(tid == bv(NT), z3.Not(any_enabled), *[s2[key] == s[key] for key in self.vars])
            solver.add(z3.Or(stutter, *cases))
            self.enabled_at.append([e for e, _, _ in et])
            states.append(s2)
        # partial-order reduction: a step that touches only thread-local state is invisible to the other threads,
        # so the same thread continues right after it (if it still can)
        for k in range(K - 1):
            for ti, t in enumerate(self.m.threads):
                loc = self.m.local_nodes.get(t.name, set())
                if not loc:
                    continue
                at_local = z3.Or(*[states[k][t.name + ".pc"] == bv(i) for i in sorted(loc)])
                solver.add(z3.Implies(z3.And(tids[k] == bv(ti), at_local, self.enabled_at[k + 1][ti]), tids[k + 1] == bv(ti)))
        return states, tids, nds

    def preemption_bound(self, solver, tids, C):
        """at most C context switches away from a thread that could have continued"""
        NT = self.nthreads
        cnt = bv(0)
        for k in range(1, len(tids)):
            prev_enabled = z3.Or(*[z3.And(tids[k - 1] == bv(ti), self.enabled_at[k][ti]) for ti in range(NT)])
            cnt = cnt + z3.If(z3.And(tids[k] != tids[k - 1], prev_enabled), bv(1), bv(0))
        solver.add(z3.ULE(cnt, bv(C)))
