#!/usr/bin/env python3
"""collects the newest per-seed quick-check logs written by bin/seedtest (/tmp/seedtest-<seed>-<property>.log) into
seeded/results.json and prints the table used in DESIGN.md"""
import glob, json, os, re, sys
D = os.path.dirname(os.path.dirname(os.path.abspath(__file__)))
rows = []
for d in sorted(os.listdir(os.path.join(D, "seeded"))):
    if not re.match(r"C\d\d-[mb]\d+$", d):
        continue
    note = os.path.join(D, "seeded", d, "note.md")
    title = open(note).readline().strip().lstrip("# ").split(" - ", 1)[-1] if os.path.exists(note) else ""
    best = None
    for f in sorted(glob.glob("/tmp/seedtest-%s-C??.log" % d), key=os.path.getmtime):
        txt = open(f, errors="replace").read()
        m = re.search(r"RESULT property=(C\d\d) tier=\w+ exit=(\d)", txt)
        if not m:
            continue
        lab = re.search(r"^VIOLATION .*\n\s+(?:check )?'([^']+)'", txt, re.M)
        lab2 = re.search(r"^VIOLATION .*\n\s+'([^']+)'", txt, re.M)
        rec = {"seed": d, "checked_by": m.group(1), "exit": int(m.group(2)), "first_failing_check": (lab or lab2).group(1) if (lab or lab2) else None,
               "degraded_lines": len(re.findall(r"^DEGRADED", txt, re.M)), "title": title}
        own = m.group(1) == d[:3]
        if best is None or rec["exit"] == 1 and best["exit"] != 1 or (rec["exit"] == best["exit"] and own):
            best = rec
    rows.append(best or {"seed": d, "checked_by": None, "exit": None, "first_failing_check": None, "degraded_lines": None, "title": title})
json.dump(rows, open(os.path.join(D, "seeded", "results.json"), "w"), indent=1)
want = sys.argv[1] if len(sys.argv) > 1 else "."
for r in rows:
    if not re.search(want, r["seed"]):
        continue
    benign = "-b" in r["seed"]
    if r["exit"] is None:
        res = "not run"
    elif benign:
        res = "silent (exit 0)" + (", %d DEGRADED" % r["degraded_lines"] if r["degraded_lines"] else "") if r["exit"] == 0 else "exit %d" % r["exit"]
    else:
        res = ("%s `%s`" % (r["checked_by"], r["first_failing_check"])) if r["exit"] == 1 else ("missed (exit %d%s)" % (r["exit"], ", DEGRADED" if r["degraded_lines"] else ""))
    print("| %s | %s | %s |" % (r["seed"], r["title"][:150], res))
