#!/usr/bin/env python3
"""Regenerates MANIFEST.json from the table below (kept in one place so the manifest is always valid)."""
import json
import os

VERIF = os.path.dirname(os.path.dirname(os.path.abspath(__file__)))
props = [json.loads(l) for l in open(os.path.join(VERIF, "properties.jsonl"))]

E1 = "pysym"
E2 = "symbmc"

# id -> (engine, technique, level text, level note, design ref)
CLAIMED = {
    "C17": (E1, "symbolic execution of the real receive_data/send_data source (AST meta-interpreter + z3), symbolic socket fault scripts, differential oracle vs a reference model",
            "For every request size in [0,200000], MSG_WAITALL on/off, ssl-like or plain socket, blocking/timeout mode and every script of <= N socket-call outcomes "
            "(deliver k bytes with symbolic k, EOF, each retryable errno, fatal errno, timeout; N=4 quick, 6 thorough) the solver shows the unmodified functions return exactly stream[0:size], "
            "never request surplus bytes, raise ConnectionClosedError (with exact partialData on early EOF) or TimeoutError as the reference model prescribes, and send every byte once in order. "
            "Bounded model checking over scripts; sizes and chunk lengths are unbounded-within-range symbolic integers.",
            "Trusted: z3; the meta-interpreter (validated per path by re-running the path's model natively and comparing observations); socket stub contract (recv returns <= n bytes, EOF sticky, send accepts 1..len). "
            "Outside: scripts longer than N calls, real kernels, partialData on the fatal-errno path (not documented by the code).",
            "DESIGN.md section 4 C17"),
    "C06": (E1, "symbolic execution of the real protocol.py encoder/decoder and recv_stub over SocketConnection/receive_data (AST meta-interpreter + z3): symbolic header fields, opaque payload of symbolic length, solver-chosen stream fragmentation; arbitrary symbolic byte strings checked differentially against an independent reference decoder",
            "(a) for all msgtype/serializer (incl. out of range), seq, 17-bit flags, payload length 0..200 (content opaque), compression on/off under the zlib contract, correlation id present/absent, annotation sets from a key list incl. invalid keys, MAX_MESSAGE_SIZE symbolic, and every fragmentation of the byte stream into CUTS+1 pieces: what SendingMessage builds is decoded by recv_stub into exactly those fields, consuming exactly the message's bytes; the encoder refuses exactly invalid/oversized input. "
            "(b) for every string of <= N symbolic bytes and every available-prefix length: the decoder accepts iff an independent reference decoder finds a well-formed message whose chunks tile exactly, decoded fields equal the reference's, consumed bytes = 40+declared, oversized messages are refused after exactly 40 bytes, and an accepted message re-encodes to an equivalent one (N=54 quick, 68 thorough).",
            "Trusted: z3, the meta-interpreter (every explored path is re-run natively on its model and observations compared), the struct model (generated from the format string; validated natively per path), the zlib contract stub (decompress(compress(x))=x, 1<=len<=len(x)+64; other input raises or yields arbitrary bytes). Outside: DEFLATE itself, byte strings longer than N, more than CUTS cut points, annotation keys outside the listed ones in (a).",
            "DESIGN.md section 4 C06"),
    "C19": (E1, "symbolic execution of the real URI parser/printer/eq/hash (AST meta-interpreter + z3) on symbolic code-point strings; regexes matched by a backtracking matcher generated from re's own parse tree; int()/%d by Unicode-aware models",
            "For every string = one of the listed protocol prefixes (letter-case variants, near misses, empty) followed by up to L arbitrary Unicode code points (L=7 quick, 10 thorough) and every NS_PORT: if URI(s) is accepted then str(u) is accepted again, parses to an equal URI with equal fields and equal hash, is a fixed point, and the state/copy round trips are equal; plus, for two URIs with arbitrary symbolic state over an ASCII name alphabet, ==, !=, hash, location and text are mutually consistent. Four classes of genuine violations are listed in known_findings.json and split off by solver predicates.",
            "Trusted: z3, the meta-interpreter and the regex/int/str models (every explored path is re-run natively on its model with the real re/int and the observations compared). Outside: strings longer than the bound, serializer transport of the state tuple (C01), lone surrogates.",
            "DESIGN.md section 4 C19"),
    "C02": (E1, "symbolic execution of the real Daemon.handleRequest dispatch and exposure gates (AST meta-interpreter + z3) with a symbolic member name (any code points) and symbolic flag bits; getattr with a symbolic name forks over exactly the names Python's lookup can find",
            "For three class shapes (per-member, whole-class, unexposed; instance/static/class methods, properties, plain attributes, helper objects, base-class members, oneway marks), all five request kinds, every member name of up to L code points (L=12 quick, 20 thorough) or a non-string, and arbitrary remaining flag bits: a member's code runs only if the name denotes a member the declarative Exposed(shape) table allows for that request kind; refused requests leave the object unchanged and get exactly one error reply (none when oneway); served requests get one result reply; get_metadata equals the table and served implies advertised. Two genuine violation classes are known findings.",
            "Trusted: z3, the meta-interpreter (paths re-run natively on their models), the codec boundary stub (payload token <-> python value), uuid/thread/traceback stubs. Outside: classes with __getattr__/metaclass tricks, names longer than the bound, the codecs themselves.",
            "DESIGN.md section 4 C02"),
    "C08": (E1, "symbolic execution of the real _handshake, thread-server job and multiplex event path (AST meta-interpreter + z3) with a symbolic first message and a pipelined second message",
            "For both server types: first message with symbolic type (0..255), serializer id (0..255), flags, seq; seven payload shapes; eight validator behaviours (accept / raise, incl. unprintable and ConnectionClosedError); registered or arbitrary unknown object id (symbolic string); an INVOKE pipelined behind it. The connection is admitted (CONNECTOK, job loop entered / selector registration) iff it is a CONNECT with a known serializer, well-formed payload, accepting validator and registered object; otherwise nothing is executed, nothing more is read, the socket is closed and a CONNECTFAIL with the reason is sent whenever one can be encoded.",
            "Trusted: z3, meta-interpreter (paths re-run natively), codec boundary stub, fake socket/selector. Outside: real sockets, payload shapes beyond the seven listed. One known finding (validator raising ConnectionClosedError gets no CONNECTFAIL).",
            "DESIGN.md section 4 C08"),
    "C12": (E1, "symbolic execution of the real handleRequest/_handshake/_sendExceptionResponse/_OnewayCallThread context handling (AST meta-interpreter + z3) over two consecutive requests of different clients on one serving thread",
            "Step 1: client A's request (returning, raising, oneway, batch, unknown member/object) whose method sets a response annotation and records the context it sees; optionally A vanishes before its reply is sent; step 2 on the same thread: client B's call / raising call / ping / handshake / batch; the oneway thread runs before or after step 2 on its own helper thread; seq, flags, serializer ids symbolic. Checked: every method sees exactly its own request's connection, peer, seq, flags, serializer, annotations and correlation id; no reply to B carries A's annotation; the serving thread's response annotations are empty again after each request. Two genuine leak classes are known findings.",
            "Trusted: z3, meta-interpreter (paths re-run natively), codec stub, uuid/thread stubs (thread bodies run on a real helper thread at a harness-chosen point). Outside: true parallelism of the oneway thread with the serving thread (only the two orders before/after step 2), the client side.",
            "DESIGN.md section 4 C12"),
    "C09": (E1, "symbolic execution of the real Daemon._getInstance / behavior / SocketConnection.close (AST meta-interpreter + z3), one inductive step from an arbitrary table pre-state with symbolic instance truthiness",
            "(E1) For each mode (single, session, percall, invalid), creator behaviour (none, returns instance, wrong type, raises), instance shape (plain, __len__-falsy with symbolic length, __bool__ with symbolic value, all-equal __eq__/__hash__) and every pre-state of the daemon-wide and per-connection tables: existing instances are reused by identity with zero creations, missing ones are created exactly once and stored in the right table, percall stores nothing, sessions are never shared between connections, close() drops the session table even when shutdown() fails. (E2, symbmc) for 2 (thorough 3) concurrent first calls on a 'single' class and every statement-level schedule of the real _getInstance: at most one instance is ever created, all callers get the same one, no deadlock. One known finding (falsy instances are recreated).",
            "Trusted: z3, meta-interpreter (paths re-run natively), for the race part the CFG front end of symbmc (createInstance abstracted as one creation step; counterexamples replayed on a real Daemon with real threads). Outside: more concurrent callers than listed.",
            "DESIGN.md section 4 C09"),
    "C13": (E1, "symbolic execution of the real thread-server job loop / multiplex events loop, SocketConnection.close and _clientDisconnect (AST meta-interpreter + z3) over all ways a connection ends",
            "An established connection (0 or 1 requests served, 0..4 tracked resources half of which fail on close, one untracked again, a session instance) ends by orderly EOF, reset, timeout, a request cut at every byte offset 1..47 (symbolic), 40 arbitrary garbage bytes, a SecurityError or an ordinary error followed by EOF; disconnect hook may raise; shutdown() may fail; both server types; a second connection stays open. Checked: hook called exactly once with this connection, every tracked resource closed exactly once (also after a second close()), untracked ones never, session table empty, socket closed, worker/selector slot released, the other connection, its resource, session and selector slot untouched.",
            "Trusted: z3, meta-interpreter (paths re-run natively), fake sockets/selector. Outside: connections that never completed the handshake, daemon shutdown, real GC of SocketConnection.",
            "DESIGN.md section 4 C13"),
    "C05": (E1, "symbolic execution of the real server layers end to end per connection (job loop, multiplex events, accept-loop refusal path, _handshake, handleRequest, _sendExceptionResponse, recv_stub) with symbolic attacker bytes / symbolic framed requests, followed by a witness call and a fresh handshake",
            "(garbage) N arbitrary symbolic bytes with every prefix truncation then eof/timeout(/reset), as first message or after a valid handshake; (structured) a framed request with symbolic type, serializer id, flags, seq, eight payload shapes and ten method behaviours incl. unserialisable results, unserialisable and unprintable exceptions and communication errors raised by the method; (refusal) pool-full accept loop with a client that reads, is gone, or stalls. Checked: no exception leaves the job/event/accept loop, the attacker's connection/slot is released, nothing runs for garbage, replies carry a request's seq, the witness client gets exactly its own correct reply and a new client is admitted. One genuine defect (refusal reply failure ends the accept loop) is a known finding.",
            "Trusted: z3, meta-interpreter (paths re-run natively), codec/zlib contract stubs, fake sockets. Outside: real sockets and the kernel, memory exhaustion, BaseException-only errors raised by user methods, a peer that sends nothing on a connection without timeout.",
            "DESIGN.md section 4 C05"),
    "C10": (E1, "symbolic execution of the real stream bookkeeping (get_next_stream_item, close_stream, _streamResponse, _clientDisconnect, _housekeeping) and of the client stream iterator over a loopback (AST meta-interpreter + z3); timestamps, clock, lifetime and linger are symbolic reals",
            "(table_step) one next/close/disconnect/housekeeping step from every stream table of <= 2 (thorough 3) entries with owner A/B/lingering, symbolic creation and linger timestamps, 0..1 (2) items left or failing now, symbolic clock/lifetime/linger, requested id known or an arbitrary unknown string: exactly the addressed stream advances by one item, exhaustion/failure/close forget it, unknown ids give an error and never items, disconnect turns A's streams into lingering ones or drops them and leaves B's alone, housekeeping drops exactly the streams strictly past lifetime/linger and keeps those strictly within. (end_to_end) two streams of length 0..2 (iterator object or generator, one raising midway) consumed through the real client iterator in every interleaving of 4 (6) next/close steps: items are the source prefix in order, StopIteration exactly at exhaustion, the generator's exception at its position, nothing after close, the server forgets finished streams.",
            "Trusted: z3 (linear real arithmetic for clock comparisons), meta-interpreter (paths re-run natively), codec stub, loopback sockets, fake clock. Outside: wall-clock behaviour, more than 3 streams, the client being garbage-collected mid-call.",
            "DESIGN.md section 4 C10"),
    "C11": (E1, "symbolic execution of the real client BatchProxy and the daemon's batch and single-call branches over a loopback (AST meta-interpreter + z3), differential against one-by-one calls on a twin object with symbolic integer arguments",
            "For every sequence of 0..2 (thorough 3) calls over {add, put, get, fail_if, unexposed, _private, nosuch} with symbolic integer arguments, normal and oneway batch: same final (symbolic) state and number of executed calls as one-by-one calls on a twin, same results in order, same failure class, one request per batch, nothing returned and no reply read for oneway, the batch proxy is empty after submission. One known finding (results before a refused member are lost).",
            "Trusted: z3, meta-interpreter (paths re-run natively), codec stub, loopback sockets. Outside: serializer-specific encodings of batch results (C01/C07), sequences longer than the bound.",
            "DESIGN.md section 4 C11"),
    "C16": (E1, "symbolic execution of the real Daemon.register/unregister/uriFor/proxyFor/_pyro_obj_to_auto_proxy/_unpack_weakref (AST meta-interpreter + z3) with the registry as an association list whose key equality is decided by the solver, so operation ids and request ids are symbolic strings",
            "One register (object or class, generated id or symbolic given id, force, weak) / unregister by object / unregister by symbolic id / garbage collection of a weakly registered object from every pre-state of a 3-object pool; afterwards: reported ids equal a reference dict, a lookup of an arbitrary symbolic id reaches exactly the reference's object, the daemon object stays reachable, every pool object travels as proxy naming one of its ids iff registered else by value, the auto-proxy hook is installed. Three genuine violation classes are known findings.",
            "Trusted: z3, meta-interpreter (paths re-run natively), SymDict overlay for the registry. Outside: when the garbage collector runs (collection is a harness event), histories longer than pre-state + one operation (inductive step over the pre-states listed).",
            "DESIGN.md section 4 C16"),
    "C18": (E2, "bounded model checking of thread schedules (QF_BV, z3): statement-level CFG extracted from the real Pool.process/notify_done/close/num_workers and Worker.run/process source, symbolic scheduler and symbolic set.pop choice; counterexample schedules replayed on the real Pool with real threads through a sys.settrace line gate",
            "For pool sizes (MIN,SIZE) in {(1,1),(1,2),(2,2)} (thorough also (1,3),(2,3)), 1..2 (3) submitted jobs, all schedules of <= K statements (K 26..42 quick, up to 56 thorough) of the accept thread, every worker thread and optionally a closer thread: |idle U busy| <= SIZE and idle, busy disjoint at every step; no job runs twice, refused jobs never run, no internal error in the accept thread; at quiescence every accepted job was served (no lost wake-up / deadlock); after close() returned no job starts and every worker that close told to stop exits. Two genuine races are known findings (found by the solver and reproduced on real threads).",
            "Trusted: z3; the CFG/abstract-store front end (unknown statement forms abort; counterexamples are replayed on the real classes); statement-level atomicity under the GIL; a job is one atomic step. Outside: close racing with process, more jobs/threads or longer schedules than listed, free-threaded builds. The refusal path's CONNECTFAIL answer is covered under C05.",
            "DESIGN.md section 4 C18"),
    "C15": (E2, "bounded model checking of thread schedules (QF_BV, z3) over the statement-level CFG of the real NameServer.register/remove/set_metadata/lookup and MemoryStorage.remove_items; linearizability oracle against a reference map written in z3; counterexamples replayed on the real NameServer with real threads",
            "For every pair (thorough: also selected triples) of operation kinds {safe/unsafe register, remove by name, remove by prefix, set_metadata, lookup}, solver-chosen names (2-name universe), URIs, metadata, initial map and every statement-level schedule: no internal error (KeyError) escapes and the results plus the final map are explained by some sequential order of the operations. Combinations containing a remove violate this in the unmodified code (known finding); all others are proved within the bound.",
            "Trusted: z3; CFG/abstract-store front end (untranslatable nodes must be unreachable; counterexamples replayed on the real classes); list() modelled as one atomic guarded step; MemoryStorage back-end only. Outside: more than 3 clients, more than one operation per client, sqlite back-end concurrency.",
            "DESIGN.md section 4 C15"),
}

NOT_YET = "check not built yet (build in progress; see DESIGN.md section 7)"
NA = {}


def main():
    checks = []
    na = []
    for p in props:
        pid = p["id"]
        if pid in CLAIMED:
            eng, tech, text, note, ref = CLAIMED[pid]
            checks.append({
                "property_id": pid,
                "quick_cmd": "bin/check %s --tier quick" % pid,
                "thorough_cmd": "bin/check %s --tier thorough" % pid,
                "evidence_file": "/verif/evidence/%s.json" % pid,
                "replay_cmd_template": "bin/check %s --replay {path}" % pid,
                "engine": eng,
                "level_claimed": {"category": "model_checking", "text": text, "design_ref": ref},
                "level_note": note,
                "technique": tech,
            })
        else:
            na.append({"property_id": pid, "reason": NA.get(pid, NOT_YET)})
    m = {
        "version": 1,
        "setup_cmd": "sh bin/setup.sh",
        "hooks": {"guard": "IRMEN_PYRO5_VERIF",
                  "enable": "none needed: the engines read Pyro5's source from /repo's working tree on every run and replace the environment (sockets, clock, codecs) in-process; no hook commits exist in /repo",
                  "baseline_off_cmd": "cd /repo && /venv/bin/python -m pytest -ra -q -p no:cacheprovider --timeout=900 --continue-on-collection-errors",
                  "source_commits": [], "add_only": True},
        "engines": [
            {"name": E1, "path": "pysym/", "serves_properties": sorted(k for k, v in CLAIMED.items() if v[0] == E1),
             "kind_free_text": "path-wise symbolic execution of the real Pyro5 source: AST meta-interpreter over real objects with symbolic leaves (ints, code-point strings, byte ropes), z3 decides every branch and obligation; counterexamples replayed natively"},
            {"name": E2, "path": "symbmc/", "serves_properties": sorted(k for k, v in CLAIMED.items() if v[0] == E2),
             "kind_free_text": "bounded model checking of thread schedules: statement-level CFG extracted from the real source, QF_BV encoding with a symbolic scheduler, z3"},
        ],
        "checks": checks,
        "not_applicable": na,
        "notes": "exit codes of bin/check: 0 held within bounds, 1 violation (replayed natively first), 2 harness/model error, 3 inconclusive (solver unknown / budget). known findings: known_findings.json",
    }
    json.dump(m, open(os.path.join(VERIF, "MANIFEST.json"), "w"), indent=1)
    print("manifest: %d checks, %d not applicable" % (len(checks), len(na)))


if __name__ == "__main__":
    main()
