#!/bin/sh
# Offline bootstrap of /verif/.venv: an overlay on /venv (which holds Pyro5's own deps and the editable
# install of /repo) plus z3-solver from the local wheelhouse.  Idempotent.
set -e
V=/verif/.venv
if [ ! -x "$V/bin/python" ] || ! "$V/bin/python" -c "import z3, serpent, msgpack" 2>/dev/null; then
  rm -rf "$V"
  /venv/bin/python -m venv "$V"
  SP=$("$V/bin/python" -c "import sysconfig;print(sysconfig.get_paths()['purelib'])")
  printf "import site; site.addsitedir('/venv/lib/python3.12/site-packages')\n" > "$SP/_overlay.pth"
  PIP_NO_INDEX=1 "$V/bin/pip" install -q --no-index --find-links /opt/veriftools/wheels z3-solver cvc5 jsonschema >/dev/null
fi
"$V/bin/python" -c "import z3, cvc5; import Pyro5; print('verif venv ok', z3.get_version_string(), Pyro5.__file__)"
