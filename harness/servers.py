"""Network-free construction of the two socket servers around a real Daemon (shared by C05/C08/C13/C12)."""
import socket

from Pyro5 import svr_threads, svr_multiplex, server, config
from harness import rig


class FakeSelector:
    def __init__(self):
        self.registered = []
        self.unregistered = []

    def register(self, fileobj, events, data=None):
        if fileobj in self.registered:
            raise KeyError("already registered")
        self.registered.append(fileobj)

    def unregister(self, fileobj):
        if fileobj not in self.registered:
            raise KeyError("not registered")
        self.registered.remove(fileobj)
        self.unregistered.append(fileobj)

    def get_map(self):
        return {i: x for i, x in enumerate(self.registered)}

    def close(self):
        pass

    def select(self, timeout=None):
        return []


class ListenSock:
    """server socket whose accept() hands out the queued client sockets"""
    family = socket.AF_INET

    def __init__(self):
        self.pending = []
        self.closed = 0

    def accept(self):
        if not self.pending:
            raise socket.timeout("no connection pending")
        s = self.pending.pop(0)
        return s, s.peer

    def getsockname(self):
        return ("127.0.0.1", 9999)

    def close(self):
        self.closed += 1

    def fileno(self):
        return 999


def make_multiplex(daemon):
    srv = svr_multiplex.SocketServer_Multiplex.__new__(svr_multiplex.SocketServer_Multiplex)
    srv.sock = ListenSock()
    srv.daemon = daemon
    srv.locationStr = "127.0.0.1:9999"
    srv._socketaddr = ("127.0.0.1", 9999)
    srv.selector = FakeSelector()
    srv.shutting_down = False
    srv.selector.register(srv.sock, 1, srv)
    daemon.transportServer = srv
    return srv


def make_job(daemon, csock):
    return svr_threads.ClientConnectionJob(csock, csock.peer, daemon)


class SyncPool:
    """worker pool stand-in: the job runs to completion in the calling thread (one worker per connection;
    the pool itself is the subject of C18)"""

    def __init__(self):
        self.jobs = 0

    def process(self, job):
        self.jobs += 1
        job()

    def close(self):
        pass


class ReadySelector:
    def select(self, timeout=None):
        return [("listen", 1)]

    def close(self):
        pass

    def register(self, *a):
        pass


def make_threadpool(daemon, pool=None):
    srv = svr_threads.SocketServer_Threadpool.__new__(svr_threads.SocketServer_Threadpool)
    srv.daemon = daemon
    srv.sock = ListenSock()
    srv.shutting_down = False
    srv.housekeeper = None
    srv._socketaddr = ("127.0.0.1", 9999)
    srv.locationStr = "127.0.0.1:9999"
    srv.pool = pool or SyncPool()
    srv._selector = ReadySelector()
    daemon.transportServer = srv
    return srv
