"""C08 -- nothing is invoked on a connection before an accepted handshake.

Real code executed symbolically: server.Daemon._handshake (+ validateHandshake hook), DaemonObject.get_metadata,
svr_threads.ClientConnectionJob.__call__/handleConnection, svr_multiplex.SocketServer_Multiplex.events/
_handleConnection/handleRequest, Daemon.handleRequest for the pipelined second message, protocol.recv_stub."""
from Pyro5 import protocol, errors, server, config, core
from Pyro5.server import expose
from pysym.runner import Spec
from pysym.api import And, Or, Not, Implies, eq
from pysym import env
from harness import rig, servers

LOG = []


@expose
class Target:
    def touch(self, *a, **k):
        LOG.append("touch")
        return "touched"


class Unprintable(Exception):
    def __str__(self):
        raise RuntimeError("cannot print this")


VALIDATOR = ["accept-hello", "accept-None", "accept-dict", "raise-ValueError", "raise-SecurityError",
             "raise-KeyError", "raise-Unprintable", "raise-ConnectionClosedError", "raise-without-a-message", "raise-empty-message"]
PAYLOADS = ["ok", "no-handshake-key", "no-object-key", "list", "None", "str", "undecodable"]


def h_first_message(S, B):
    rig.reset(S)
    del LOG[:]
    servertype = S.choice("servertype", ["thread", "multiplex"])
    msgtype = S.int("msgtype", 0, 255)
    ser = S.int("serializer_id", 0, 255)
    flags = S.int("flags", 0, 65535)
    seq = S.int("seq", 0, 65535)
    payload_kind = S.choice("payload", PAYLOADS)
    validator = S.choice("validator", VALIDATOR)
    objid_known = S.flag("object_id_is_registered")
    objid = "target" if objid_known else S.str("object_id", B["L"])
    if not objid_known:
        S.assume(And(Not(eq(objid, "target")), Not(eq(objid, core.DAEMON_NAME))), "the unknown object id differs from the registered ids")
    flags = flags & ~protocol.FLAGS_COMPRESSED
    if payload_kind == "ok":
        value = {"handshake": "hi", "object": objid}
    elif payload_kind == "no-handshake-key":
        value = {"object": objid}
    elif payload_kind == "no-object-key":
        value = {"handshake": "hi"}
    elif payload_kind == "list":
        value = ["handshake", "object"]
    elif payload_kind == "None":
        value = None
    elif payload_kind == "str":
        value = "handshake"
    else:
        value = rig.RaiseOnDecode(errors.SerializeError("cannot decode"))
    daemon = rig.make_daemon()
    target = Target()
    daemon.objectsById["target"] = target
    validator_calls = []

    def validate(conn, data):
        validator_calls.append(data)
        if validator == "accept-hello":
            return "hello"
        if validator == "accept-None":
            return None
        if validator == "accept-dict":
            return {"a": 1}
        if validator == "raise-ValueError":
            raise ValueError("go away")
        if validator == "raise-SecurityError":
            raise errors.SecurityError("denied")
        if validator == "raise-KeyError":
            raise KeyError("k")
        if validator == "raise-Unprintable":
            raise Unprintable()
        if validator == "raise-without-a-message":
            raise PermissionError()                   # str() of it is the empty string
        if validator == "raise-empty-message":
            raise errors.SecurityError("")
        raise errors.ConnectionClosedError("validator lost the connection")
    daemon.validateHandshake = validate
    csock = rig.FakeSock("A")
    first = rig.build_message(msgtype, flags, seq, ser, value)
    second = rig.build_message(protocol.MSG_INVOKE, 0, 77, 3, ("target", "touch", (), {}))
    csock.queue(first)
    csock.queue(second)
    registered = False
    escaped = None
    try:
        if servertype == "thread":
            job = servers.make_job(daemon, csock)
            job()
        else:
            srv = servers.make_multiplex(daemon)
            srv.sock.pending.append(csock)
            srv.events([srv.sock])
            conns = [c for c in srv.selector.registered if c is not srv.sock]
            registered = len(conns) == 1
            if registered:
                srv.events([conns[0]])
    except Exception as x:
        escaped = x
    S.check("server-contains-handshake-errors", escaped is None)
    ser_known = Or(ser == 1, ser == 2, ser == 3, ser == 4)
    accept_expected = And(msgtype == protocol.MSG_CONNECT, ser_known, payload_kind == "ok", validator.startswith("accept"), objid_known)
    replies = rig.parse_sent(csock)
    first_is_ok = len(replies) >= 1 and S.must(replies[0].type == protocol.MSG_CONNECTOK)
    if first_is_ok:
        S.cover("handshake:accepted")
        S.check("accepted-only-if-entitled", accept_expected)
        S.check("validator-consulted-once", len(validator_calls) == 1)
        S.check("connectok-carries-request-seq", replies[0].seq == seq)
        if servertype == "multiplex":
            S.check("registered-with-selector", registered)
        # after acceptance the pipelined call is served
        S.check("pipelined-call-served-after-acceptance", LOG == ["touch"])
    else:
        S.cover("handshake:refused")
        S.check("entitled-handshake-is-accepted", Not(accept_expected))
        S.check("nothing-executed-before-acceptance", LOG == [])
        S.check("refused-connection-is-closed", csock.closed >= 1)
        S.check("nothing-read-after-the-failure", csock.consumed <= len(first))
        if servertype == "multiplex":
            S.check("not-registered-with-selector", not registered)
        printable = validator != "raise-Unprintable"
        S.known("C08-validator-raising-ConnectionClosedError-gets-no-connectfail",
                And(validator == "raise-ConnectionClosedError", msgtype == protocol.MSG_CONNECT, ser_known,
                    payload_kind in ("ok", "no-object-key")), checks=["refusal-sends-connectfail"])
        # every refusal is answered (in the built-in serializer if need be); only a reason that cannot be printed
        # cannot be carried
        validator_runs = And(msgtype == protocol.MSG_CONNECT, ser_known, payload_kind in ("ok", "no-object-key"))
        must_reply = Or(printable, Not(validator_runs))
        S.known("C08-connect-with-an-unknown-serializer-id-gets-no-connectfail",
                And(msgtype == protocol.MSG_CONNECT, Not(ser_known)), checks=["refusal-sends-connectfail"])
        if len(replies) == 0:
            S.check("refusal-sends-connectfail", Not(must_reply))
        else:
            S.check("exactly-one-reply", len(replies) == 1)
            S.check("reply-is-connectfail", replies[0].type == protocol.MSG_CONNECTFAIL)
            S.check("connectfail-carries-request-seq-or-zero", Or(replies[0].seq == seq, replies[0].seq == 0))
            reason = rig.reply_value(replies[0])
            S.check("connectfail-carries-a-reason", isinstance(reason, str) or S.symbolic and not isinstance(reason, (dict, list, tuple, type(None))))
    S.observe("log", list(LOG))
    S.observe("replies", len(replies))
    S.observe("closed", csock.closed >= 1)


def h_history(S, B):
    """whether an object is "registered" is decided when the connect message arrives: an id that was connected to before and
    has since been unregistered (by id, by object, or because the weakly registered object was collected), or an id that was
    re-registered, is judged by the registry as it is now"""
    import gc
    rig.reset(S)
    del LOG[:]
    servertype = S.choice("servertype", ["thread", "multiplex"])
    daemon = rig.make_daemon()
    target = Target()
    weak = S.flag("registered_weakly")
    daemon.register(target, "target", weak=weak)

    def connect(name):
        csock = rig.FakeSock(name)
        csock.queue(rig.build_message(protocol.MSG_CONNECT, 0, 5, 3, {"handshake": "hi", "object": "target"}))
        csock.queue(rig.build_message(protocol.MSG_INVOKE, 0, 6, 3, ("target", "touch", (), {})))
        try:
            if servertype == "thread":
                servers.make_job(daemon, csock)()
            else:
                srv = servers.make_multiplex(daemon)
                srv.sock.pending.append(csock)
                srv.events([srv.sock])
                for c in [c for c in srv.selector.registered if c is not srv.sock]:
                    srv.events([c])
        except Exception as x:
            S.check("server-contains-handshake-errors", False)
        return csock, rig.parse_sent(csock)
    if S.flag("an_earlier_connection_was_accepted"):
        s0, r0 = connect("A")
        S.check("first-connection-is-accepted-and-served", len(r0) >= 1 and r0[0].type == protocol.MSG_CONNECTOK and LOG == ["touch"])
        del LOG[:]
    how = S.choice("then", ["unregister-by-id", "unregister-by-object", "collected", "still-registered"])
    if how == "unregister-by-id":
        daemon.unregister("target")
    elif how == "unregister-by-object":
        daemon.unregister(target)
    elif how == "collected":
        S.assume(weak, "only a weakly registered object goes away with its last reference")
        target = None
        gc.collect()
    s1, r1 = connect("B")
    S.cover("history:" + how)
    if how == "still-registered":
        S.check("registered-object-is-still-accepted", len(r1) >= 1 and r1[0].type == protocol.MSG_CONNECTOK and LOG == ["touch"])
    else:
        S.check("unregistered-object-is-refused", len(r1) == 1 and r1[0].type == protocol.MSG_CONNECTFAIL)
        S.check("nothing-executed-for-the-refused-connection", LOG == [])
        S.check("refused-connection-is-closed", s1.closed >= 1)
    S.observe("replies", [r.type for r in r1])


def _reset():
    from pysym.runner import default_reset
    default_reset()
    del LOG[:]


INTERPRET_MODULES = ["harness.rig", "harness.servers"]
STUBS = rig.STUBS

SPECS = [
    Spec("first_message", h_first_message,
         {"quick": {"L": 6}, "thorough": {"L": 12}},
         covers=["handshake:accepted", "handshake:refused", "check:nothing-executed-before-acceptance",
                 "check:reply-is-connectfail", "check:pipelined-call-served-after-acceptance"],
         native_patch=env.native_env, reset=_reset,
         desc="first message with symbolic type/serializer id/flags/seq, seven payload shapes, eight validator behaviours, known or symbolic unknown object id, an INVOKE pipelined behind it; thread job and multiplex event path"),
    Spec("history", h_history, {"quick": {}, "thorough": {}},
         covers=["history:unregister-by-id", "history:unregister-by-object", "history:collected", "history:still-registered",
                 "check:unregistered-object-is-refused"], native_patch=env.native_env, reset=_reset,
         desc="a connect (with a pipelined call) for an id that was registered (strongly or weakly), possibly connected to before, and then unregistered by id / by object / collected / left alone: judged by the registry as it is when the connect arrives; both servers"),
]
