"""C10 -- a remote iterator delivers exactly the server's items, once, in order.

Real code executed symbolically: server.DaemonObject.get_next_stream_item/close_stream, Daemon._streamResponse,
_clientDisconnect, _housekeeping, handleRequest (stream reply), client._StreamResultIterator.__next__/close,
Proxy._pyroInvoke.  (1) one step from an arbitrary stream table (owners, symbolic timestamps, symbolic clock and
lifetime/linger settings); (2) end-to-end interleavings of two client streams over the loopback."""
import time

from Pyro5 import protocol, errors, server, config, client, core
from Pyro5.server import expose
from Pyro5.callcontext import current_context
from pysym.runner import Spec
from pysym.api import And, Or, Not, Implies, eq
from pysym import env
from harness import rig


class ModelIter:
    """server-side iterator with an explicit position; `raises_at` makes it fail at that position"""

    def __init__(self, name, total, pos, raises_at=None):
        self.name = name
        self.total = total
        self.pos = pos
        self.raises_at = raises_at
        self.nexts = 0

    def __iter__(self):
        return self

    during = None        # optional callable run at the start of the next __next__ (something else happening meanwhile)

    def __next__(self):
        self.nexts += 1
        if self.during is not None:
            d, self.during = self.during, None
            d()
        if self.raises_at is not None and self.pos == self.raises_at:
            raise KeyError("generator failed at %d" % self.pos)
        if self.pos >= self.total:
            raise StopIteration()
        item = (self.name, self.pos)
        self.pos += 1
        return item


IDS = ["s1", "s2", "s3"]
OPS = ["next", "close", "disconnect", "housekeeping"]


def h_table_step(S, B):
    rig.reset(S)
    daemon = rig.make_daemon()
    dobj = daemon.objectsById[core.DAEMON_NAME]
    sockA, sockB = rig.FakeSock("A"), rig.FakeSock("B")
    connA, connB = rig.connection(sockA), rig.connection(sockB)
    now = S.real("now", 1)
    env.CLOCK.now = now
    lifetime = S.real("ITER_STREAM_LIFETIME", 0)
    linger = S.real("ITER_STREAM_LINGER", 0)
    config.ITER_STREAM_LIFETIME = lifetime
    config.ITER_STREAM_LINGER = linger
    n = S.choice("n_streams", B["NS"])
    pre = {}
    for sid in IDS[:n]:
        owner = S.choice(sid + ".owner", ["A", "B", "lingering"])
        created = S.real(sid + ".created", 1)
        S.assume(created <= now, "streams were created in the past")
        if owner == "lingering":
            lts = S.real(sid + ".linger_since", 1)
            S.assume(And(lts >= created, lts <= now), "a stream started lingering after it was created, in the past")
        else:
            lts = 0
        remaining = S.choice(sid + ".remaining", B["REM"])
        fails = S.flag(sid + ".fails_now")
        it = ModelIter(sid, 2 + remaining, 2, 2 if fails else None)
        conn = {"A": connA, "B": connB, "lingering": None}[owner]
        daemon.streaming_responses[sid] = (conn, created, lts, it)
        pre[sid] = (conn, created, lts, it, owner, remaining, fails)
    op = S.choice("op", OPS)
    current_context.client = connA
    S.cover("op:" + op)
    if op in ("next", "close"):
        which = S.choice("requested_id", ["known", "unknown"])
        if which == "known" and n > 0:
            rid = S.choice("requested_known_id", IDS[:n])
        else:
            rid = S.str("requested_unknown_id", B["L"])
            for sid in IDS[:n]:
                S.assume(Not(eq(rid, sid)), "the unknown id differs from the table's ids")
        result = None
        exc = None
        try:
            if op == "next":
                result = dobj.get_next_stream_item(rid)
            else:
                dobj.close_stream(rid)
        except Exception as x:
            exc = x
        known = isinstance(rid, str) and rid in pre
        if op == "next":
            if not known:
                S.check("unknown-stream-gives-error-never-items", isinstance(exc, errors.PyroError) and result is None)
                S.check("unknown-id-leaves-table-alone", len(daemon.streaming_responses) == n)
            else:
                conn, created, lts, it, owner, remaining, fails = pre[rid]
                if fails:
                    S.check("generator-exception-is-reraised", isinstance(exc, KeyError))
                    S.check("failed-stream-is-forgotten", rid not in daemon.streaming_responses)
                elif remaining == 0:
                    S.check("exhaustion-is-StopIteration", isinstance(exc, StopIteration))
                    S.check("exhausted-stream-is-forgotten", rid not in daemon.streaming_responses)
                else:
                    S.check("next-returns-the-next-item-of-that-stream", exc is None and result == (rid, 2))
                    S.check("stream-advanced-by-one", it.pos == 3 and it.nexts == 1)
                    S.check("stream-still-registered", rid in daemon.streaming_responses)
                    if rid in daemon.streaming_responses:
                        e = daemon.streaming_responses[rid]
                        if owner == "lingering":
                            S.check("resumed-stream-is-reowned", e[0] is connA and eq(e[2], 0))
                        else:
                            S.check("owner-unchanged", e[0] is conn)
                        S.check("creation-time-kept", eq(e[1], created))
        else:
            S.check("close-never-fails", exc is None)
            if known:
                S.check("closed-stream-is-forgotten", rid not in daemon.streaming_responses)
        # frame: every other stream is untouched
        for sid in pre:
            if not (known and sid == rid):
                S.check("other-streams-untouched", sid in daemon.streaming_responses and
                        daemon.streaming_responses[sid][3].nexts == 0 and daemon.streaming_responses[sid][0] is pre[sid][0])
    elif op == "disconnect":
        hook = []
        daemon.clientDisconnect = lambda c: hook.append(c)
        daemon._clientDisconnect(connA)
        S.check("disconnect-hook-called", hook == [connA])
        for sid in pre:
            conn, created, lts, it, owner, remaining, fails = pre[sid]
            if owner == "A":
                if S.must(linger > 0):
                    S.check("disconnect-with-linger-keeps-stream-ownerless", sid in daemon.streaming_responses and
                            daemon.streaming_responses[sid][0] is None and eq(daemon.streaming_responses[sid][2], now))
                elif S.must(linger == 0):
                    S.check("disconnect-without-linger-drops-stream", sid not in daemon.streaming_responses)
            else:
                S.check("disconnect-leaves-other-streams", sid in daemon.streaming_responses and
                        daemon.streaming_responses[sid][0] is conn and eq(daemon.streaming_responses[sid][2], lts))
    else:
        daemon._housekeeping()
        for sid in pre:
            conn, created, lts, it, owner, remaining, fails = pre[sid]
            age = now - created
            past_lifetime = And(lifetime > 0, age > lifetime)
            within_lifetime = Or(lifetime == 0, age < lifetime)
            if owner == "lingering":
                lp = now - lts
                past_linger = And(linger > 0, lp > linger)
                within_linger = Or(linger == 0, lp < linger)
            else:
                past_linger = False
                within_linger = True
            gone = sid not in daemon.streaming_responses
            S.check("housekeeping-drops-expired-streams", Implies(Or(past_lifetime, past_linger), gone))
            S.check("housekeeping-keeps-live-streams", Implies(And(within_lifetime, within_linger), not gone))
            S.check("housekeeping-consumes-nothing", it.nexts == 0)
    S.observe("left", sorted(daemon.streaming_responses.keys()))


def h_fetch_meanwhile(S, B):
    """a client comes back to its lingering stream within the linger period; while the server iterator is producing the
    item, the daemon's housekeeping runs (at a later clock value).  A stream that has outlived its lifetime by then is
    forgotten for good (the fetch in progress does not bring it back); otherwise the re-attached stream lives on and the
    next fetch continues with the next item."""
    rig.reset(S)
    daemon = rig.make_daemon()
    dobj = daemon.objectsById[core.DAEMON_NAME]
    connA = rig.connection(rig.FakeSock("A"))
    now0 = S.real("now_at_fetch", 1)
    now1 = S.real("now_at_housekeeping", 1)
    created = S.real("created", 1)
    lts = S.real("linger_since", 1)
    lifetime = S.real("ITER_STREAM_LIFETIME", 0)
    linger = S.real("ITER_STREAM_LINGER", 0)
    S.assume(And(created <= lts, lts <= now0, now0 <= now1), "created, started lingering, fetch, housekeeping: in this order")
    S.assume(And(linger > 0, now0 - lts < linger), "the client comes back within the linger period")
    S.assume(Or(lifetime == 0, now0 - created < lifetime), "the stream is within its lifetime when the client comes back")
    config.ITER_STREAM_LIFETIME = lifetime
    config.ITER_STREAM_LINGER = linger
    env.CLOCK.now = now0
    it = ModelIter("s", 6, 2)
    daemon.streaming_responses["s"] = (None, created, lts, it)

    def housekeeping():
        env.CLOCK.now = now1
        daemon._housekeeping()
    it.during = housekeeping
    current_context.client = connA
    first = second = None
    err1 = err2 = None
    try:
        first = dobj.get_next_stream_item("s")
    except Exception as x:
        err1 = x
    past_lifetime = And(lifetime > 0, now1 - created > lifetime)
    within_lifetime = Or(lifetime == 0, now1 - created < lifetime)
    S.cover("fetch-meanwhile")
    S.check("fetch-in-progress-delivers-its-item", err1 is None and first == ("s", 2))
    present = "s" in daemon.streaming_responses
    S.check("stream-that-outlived-its-lifetime-stays-forgotten", Implies(past_lifetime, not present))
    S.check("reattached-stream-within-its-lifetime-lives-on", Implies(within_lifetime, present))
    try:
        second = dobj.get_next_stream_item("s")
    except Exception as x:
        err2 = x
    S.check("coming-back-to-a-forgotten-stream-is-an-error-never-an-item", Implies(past_lifetime, isinstance(err2, errors.PyroError) and second is None))
    S.check("the-next-fetch-continues-with-the-next-item", Implies(within_lifetime, err2 is None and second == ("s", 3)))
    if present and "s" in daemon.streaming_responses:
        S.check("reattached-stream-is-owned-by-the-client-that-came-back", daemon.streaming_responses["s"][0] is connA)
    S.observe("outcome", (first, type(err2).__name__ if err2 is not None else second))


# ------------------------------------------------------------------------------------------------
def count_up(name, total):
    for i in range(total):
        yield (name, i)


@expose
class Source:
    def __init__(self):
        self.made = []

    def numbers(self, name, total, raises_at):
        it = ModelIter(name, total, 0, raises_at)
        self.made.append(it)
        return it

    def gen(self, name, total):
        return count_up(name, total)

    def plain(self):
        return [1, 2, 3]


def h_end_to_end(S, B):
    rig.reset(S)
    config.ITER_STREAMING = True
    env.CLOCK.now = 1000.0
    daemon = rig.make_daemon()
    src = Source()
    daemon.objectsById["obj"] = src
    p, sock = rig.make_proxy(daemon, "obj", {"numbers", "gen", "plain"})
    sock.server_on_own_thread = True          # the daemon has its own thread-locals, like a real server
    # a client that traces its calls sends the same correlation id with every request
    current_context.correlation_id = rig.FakeUUID(int=0xC0FFEE) if S.flag("client_sends_one_correlation_id_with_every_call") else None
    totalX = S.choice("X.total", [0, 1, 2])
    totalY = S.choice("Y.total", [0, 2])
    x_raises = S.choice("X.raises_at", [None, 0, 1])
    use_gen = S.flag("Y_is_a_generator")
    X = p._pyroInvoke("numbers", ("X", totalX, x_raises), {})
    Y = p._pyroInvoke("gen", ("Y", totalY), {}) if use_gen else p._pyroInvoke("numbers", ("Y", totalY, None), {})
    S.check("iterator-results-arrive-as-stream-iterators", isinstance(X, client._StreamResultIterator) and isinstance(Y, client._StreamResultIterator))
    S.check("two-streams-registered", len(daemon.streaming_responses) == 2)
    got = {"X": [], "Y": []}
    end = {"X": None, "Y": None}
    steps = B["STEPS"]
    for i in range(steps):
        who = S.choice("step%d" % i, ["X", "Y", "closeX"] + (["dropX"] if i in B.get("DROP_STEPS", ()) else []))
        if who == "dropX":
            # the connection is reset while the next fetch of X is on its way (the request never reaches the daemon); the
            # daemon notices the disconnect, the client reconnects the proxy within the linger period: both streams go on
            if end["X"] is None and p._pyroConnection is not None:
                S.cover("fetch-lost-then-reconnected")
                cur = p._pyroConnection.sock
                cur.send_fault = "reset"
                try:
                    next(X)
                    S.check("fetch-on-a-dead-connection-fails", False)
                except errors.CommunicationError:
                    pass
                except StopIteration:
                    end["X"] = "stop"
                cur.server_alive = False
                daemon._clientDisconnect(cur.server_conn)
                cur.server_conn.close()
                p._pyroBind()
            continue
        if who == "closeX":
            X.close()
            if end["X"] is None:
                end["X"] = "closed"
            continue
        it = X if who == "X" else Y
        if end[who] is not None and end[who] != "closed":
            continue
        was_closed = end[who] == "closed"
        try:
            item = next(it)
            if was_closed:
                S.check("no-items-after-close", False)
            got[who].append(item)
        except StopIteration:
            end[who] = "ended-after-close" if was_closed else "stop"
        except Exception as x:
            end[who] = "ended-after-close" if was_closed else type(x).__name__
    # reference: what the sources produce
    refX = [("X", i) for i in range(totalX)]
    if x_raises is not None and x_raises < totalX or x_raises == totalX:
        refX = refX[:x_raises]
    S.cover("e2e")
    S.check("X-items-are-a-prefix-of-its-source-in-order", got["X"] == refX[:len(got["X"])])
    S.check("Y-items-are-a-prefix-of-its-source-in-order", got["Y"] == [("Y", i) for i in range(totalY)][:len(got["Y"])])
    if end["X"] == "stop":
        S.check("X-stops-exactly-at-exhaustion", len(got["X"]) == totalX and (x_raises is None or x_raises > totalX))
    if end["X"] == "KeyError":
        S.check("X-reraises-the-generators-exception-at-its-position", x_raises is not None and len(got["X"]) == x_raises)
    if end["Y"] == "stop":
        S.check("Y-stops-exactly-at-exhaustion", len(got["Y"]) == totalY)
    S.check("streams-end-only-by-stop-error-or-close", end["X"] in (None, "stop", "KeyError", "closed", "ended-after-close") and end["Y"] in (None, "stop"))
    # the server forgets finished streams
    finished = (1 if end["X"] is not None else 0) + (1 if end["Y"] is not None else 0)
    rig.run_pending_threads()
    S.check("server-forgets-finished-streams", len(daemon.streaming_responses) == 2 - finished)
    # a non-iterator result is returned by value
    S.check("plain-results-are-not-streamed", p._pyroInvoke("plain", (), {}) == [1, 2, 3])
    S.observe("got", (got["X"], got["Y"], end["X"], end["Y"]))


def _reset():
    from pysym.runner import default_reset
    default_reset()
    env.CLOCK.now = 1000.0


INTERPRET_MODULES = ["harness.rig"]
STUBS = rig.STUBS

SPECS = [
    Spec("table_step", h_table_step, {"quick": {"L": 4, "NS": [0, 1, 2], "REM": [0, 1]}, "thorough": {"L": 8, "NS": [0, 1, 2, 3], "REM": [0, 1, 2]}},
         covers=["op:next", "op:close", "op:disconnect", "op:housekeeping", "check:next-returns-the-next-item-of-that-stream",
                 "check:housekeeping-drops-expired-streams", "check:resumed-stream-is-reowned",
                 "check:disconnect-with-linger-keeps-stream-ownerless"],
         native_patch=env.native_env, reset=_reset,
         desc="one next/close/disconnect/housekeeping step from every stream table of <= 3 entries (owner A/B/lingering, symbolic creation and linger timestamps, 0..2 items left or failing), symbolic clock, lifetime and linger; requested id known or an arbitrary unknown string"),
    Spec("fetch_meanwhile", h_fetch_meanwhile, {"quick": {}, "thorough": {}},
         covers=["fetch-meanwhile", "check:stream-that-outlived-its-lifetime-stays-forgotten", "check:the-next-fetch-continues-with-the-next-item"],
         native_patch=env.native_env, reset=_reset,
         desc="a fetch on a lingering stream (client back within the linger period) during which the daemon's housekeeping runs at a later, symbolic clock value; symbolic creation/linger timestamps, lifetime and linger"),
    Spec("end_to_end", h_end_to_end, {"quick": {"STEPS": 4, "DROP_STEPS": [1]}, "thorough": {"STEPS": 6, "DROP_STEPS": [0, 2]}},
         covers=["e2e", "fetch-lost-then-reconnected", "check:X-stops-exactly-at-exhaustion", "check:X-reraises-the-generators-exception-at-its-position",
                 "check:server-forgets-finished-streams"],
         native_patch=env.native_env, reset=_reset,
         desc="two streams (iterator object / generator; lengths 0..2; one raising midway) opened on one proxy and consumed in every interleaving of STEPS next/close steps through the real client iterator and daemon; at the DROP_STEPS the connection may be reset under a fetch (request lost), the daemon sees the disconnect and the proxy reconnects within the linger period"),
]
