"""C19 -- URIs have one canonical text form that parses back to the same URI.

Real code executed symbolically: Pyro5.core.URI.__init__, _parseLocation, location, __str__, __eq__, __ne__, __hash__,
__getstate__, __setstate__; client.Proxy.__getstate__/__setstate__ text leg; the two regexes are matched by the
backtracking matcher generated from re's own parse tree; int(port) by the Unicode-aware model."""
from Pyro5 import core, errors, config
from pysym.runner import Spec
from pysym.api import And, Or, Not, Implies, eq
from pysym import env


def permutations(items):
    if len(items) <= 1:
        return [list(items)]
    out = []
    for i in range(len(items)):
        rest = items[:i] + items[i + 1:]
        for p in permutations(rest):
            out.append([items[i]] + p)
    return out


def parse(S, text):
    try:
        return core.URI(text), None
    except errors.PyroError as x:
        return None, "PyroError"
    except Exception as x:
        return None, type(x).__name__


def h_text_roundtrip(S, B):
    prefix = S.choice("prefix", B["PREFIXES"])
    rest = S.str("rest", B["L"])
    s = prefix + rest
    nsport = S.int("NS_PORT", 1, 65535)
    config.NS_PORT = nsport
    u, why = parse(S, s)
    if u is None:
        S.cover("rejected:" + why)
        S.observe("rejected", why)
        S.check("parser-rejects-with-PyroError", why == "PyroError")
        return
    proto = "PYRO" if u.protocol == "PYRO" else ("PYRONAME" if u.protocol == "PYRONAME" else "PYROMETA")
    S.check("protocol-is-one-of-three", eq(u.protocol, proto))
    S.cover("accepted:" + proto)
    empty_host = And(u.host is not None, len(u.host if u.host is not None else "x") == 0)
    TEXT_CHECKS = ["text-form-is-accepted-again", "reparsed-uri-is-equal", "reparsed-uri-not-unequal", "same-protocol-object-location",
                   "text-form-is-a-fixed-point", "state-roundtrip-same-text", "equal-uris-have-equal-hashes"]
    S.known("C19-empty-host-dropped-from-text-form", empty_host, checks=TEXT_CHECKS)
    S.known("C19-host-dot-slash-u-reparsed-as-unix-socket", And(u.host is not None, eq(u.host, "./u")), checks=TEXT_CHECKS)
    if proto == "PYROMETA":
        S.known("C19-pyrometa-tag-containing-an-at-sign-makes-the-text-form-ambiguous",
                Or(*[("@" in t) for t in u.object]), checks=TEXT_CHECKS + ["hash-is-defined"])
        S.known("C19-pyrometa-only-empty-tag-unparseable-text-form",
                And(*[len(t) == 0 for t in u.object]), checks=TEXT_CHECKS)
    if proto == "PYROMETA":
        # the text form joins the tag set in iteration order, which is arbitrary: every order must parse back
        tags = list(u.object)
        S.assume(len(tags) <= 3, "at most three metadata tags")
        texts = []
        for perm in permutations(tags):
            up = core.URI(u)
            up.object = list(perm)
            texts.append(str(up))
    else:
        texts = [str(u)]
    S.observe("text", texts[0] if proto != "PYROMETA" else None)
    t = texts[0]
    u2 = None
    for t in texts:
        u2, why2 = parse(S, t)
        S.check("text-form-is-accepted-again", u2 is not None)
        if u2 is None:
            continue
        S.check("reparsed-uri-is-equal", u2 == u)
        S.check("reparsed-uri-not-unequal", Not(u2 != u))
        S.check("same-protocol-object-location", And(eq(u2.protocol, u.protocol), eq(u2.object, u.object),
                                                     eq(u2.host, u.host), eq(u2.port, u.port), eq(u2.sockname, u.sockname)))
        if proto != "PYROMETA":
            t2 = str(u2)
            S.check("text-form-is-a-fixed-point", eq(t2, t))
    # hashing
    S.known("C19-pyrometa-uri-unhashable", proto == "PYROMETA", checks=["hash-is-defined"])
    h1 = h2 = None
    u2 = core.URI(u)           # an equal URI (copy)
    try:
        h1 = hash(u)
        h2 = hash(u2)
    except TypeError:
        S.check("hash-is-defined", False)
    if h1 is not None and h2 is not None:
        S.check("equal-uris-have-equal-hashes", h1 == h2)
    # state path (pickle-style / serializer path): a URI rebuilt from its state is the same URI
    u3 = core.URI.__new__(core.URI)
    u3.__setstate__(u.__getstate__())
    S.check("state-roundtrip-equal", u3 == u)
    S.check("state-roundtrip-same-text", Or(proto == "PYROMETA", eq(str(u3), texts[0])))
    # serializer path: class_to_dict sends the state tuple, dict_to_class feeds what arrives to __setstate__.  serpent and
    # marshal deliver the tuple (and a tag set) as they are; json and msgpack deliver lists (the tag set as a list, in any order)
    if proto == "PYROMETA":
        arrived = [list(u.__getstate__())] + [[u.protocol, list(perm), u.sockname, u.host, u.port] for perm in permutations(list(u.object))]
    else:
        arrived = [list(u.__getstate__())]
    for st in arrived:
        u5 = core.URI.__new__(core.URI)
        u5.__setstate__(st)
        S.check("uri-through-a-serializer-is-equal", u5 == u)
        h5 = None
        try:
            h5 = hash(u5)
        except TypeError:
            S.check("uri-through-a-serializer-is-hashable", False)
        if h5 is not None and h1 is not None:
            S.check("uri-through-a-serializer-has-the-same-hash", h5 == h1)
        if proto != "PYROMETA":
            S.check("uri-through-a-serializer-has-the-same-text", eq(str(u5), texts[0]))
    # copy constructor
    u4 = core.URI(u)
    S.check("copy-equal", u4 == u)
    S.observe("fields", (proto, u.object if proto != "PYROMETA" else None, u.host, u.port, u.sockname))


def h_nameserver_leg(S, B):
    """a URI registered in the name server as text designates the same object and location when it is looked up"""
    from Pyro5 import nameserver
    prefix = S.choice("prefix", B["PREFIXES"])
    rest = S.str("rest", B["L"])
    s = prefix + rest
    config.NS_PORT = 9090
    u, why = parse(S, s)
    if u is None:
        S.cover("ns:rejected")
        return
    ns = nameserver.NameServer(nameserver.MemoryStorage())
    failed = None
    try:
        ns.register("some.name", s)
        stored = ns.storage["some.name"][0]
    except Exception as x:
        failed = type(x).__name__
    S.cover("ns:accepted")
    S.check("name-server-accepts-every-uri-text-the-parser-accepts", failed is None)
    if failed is None:
        if S.must(eq(stored, s)):
            S.cover("ns:stored-unchanged")      # lookup parses the very text that was registered
        else:
            # the server keeps some other text: it must still designate the same object and location
            S.check("looked-up-uri-equals-the-registered-one", ns.lookup("some.name") == u)
    S.observe("ns", failed)


def eq_opt(a, b):
    if a is None or b is None:
        return a is None and b is None
    return eq(a, b)


def mk_uri(S, tag, B):
    proto = S.choice(tag + ".protocol", ["PYRO", "PYRONAME"])
    obj = S.str(tag + ".object", B["LO"], 1, B["ALPHA"])
    loc = S.choice(tag + ".kind", ["host", "sock", "none"] if proto == "PYRONAME" else ["host", "sock"])
    u = core.URI.__new__(core.URI)
    if loc == "host":
        host = S.str(tag + ".host", B["LH"], 1, B["ALPHA"])
        port = S.int(tag + ".port", 0, 65535)
        u.__setstate__((proto, obj, None, host, port))
    elif loc == "sock":
        sock = S.str(tag + ".sock", B["LH"], 1, B["ALPHA"])
        u.__setstate__((proto, obj, sock, None, None))
    else:
        u.__setstate__((proto, obj, None, None, None))
    return u


def h_pair(S, B):
    """two arbitrary URIs: equality, hash and location are mutually consistent"""
    a = mk_uri(S, "a", B)
    b = mk_uri(S, "b", B)
    same = a == b
    S.cover("pair")
    S.check("eq-symmetric", eq_bool(same, b == a))
    S.check("ne-is-not-eq", eq_bool(a != b, Not(same)))
    S.check("equal-uris-have-equal-hashes", Implies(same, hash(a) == hash(b)))
    S.check("equal-uris-have-equal-locations", Implies(same, eq(a.location, b.location)))
    S.check("equal-uris-have-equal-text", Implies(same, eq(str(a), str(b))))
    S.check("unequal-locations-never-compare-equal", Implies(Not(eq(a.location, b.location)), Not(same)))
    S.check("equal-text-means-equal", Implies(eq(str(a), str(b)), Or(same, ambiguous_text(a, b))))
    S.observe("same", same)


def ambiguous_text(a, b):
    """states with characters that make the text form ambiguous (':' or '@' inside names); outside this claim"""
    return False


def eq_bool(x, y):
    from pysym.api import Iff
    return Iff(x, y)


ASCII_NAME = [(0x30, 0x39), (0x41, 0x5A), (0x61, 0x7A), (0x2E, 0x2E), (0x2D, 0x2D)]

SPECS = [
    Spec("nameserver_leg", h_nameserver_leg,
         {"quick": {"L": 5, "PREFIXES": ["PYRO:o@", "PYRONAME:o@", "PYRO:"]}, "thorough": {"L": 7, "PREFIXES": ["PYRO:o@", "PYRONAME:o@", "PYRO:", "PYRONAME:"]}},
         covers=["ns:accepted", "ns:rejected", "ns:stored-unchanged"],
         native_patch=env.native_env,
         desc="a URI text (listed prefix + up to L arbitrary code points) registered in a NameServer: accepted iff the parser accepts it, and what the server keeps is that text itself or designates an equal URI"),
    Spec("text_roundtrip", h_text_roundtrip,
         {"quick": {"L": 7, "PREFIXES": ["PYRO:", "pyro:", "PYRONAME:", "PyroName:", "PYROMETA:", "PYROx:", "PYR", ""]},
          "thorough": {"L": 10, "PREFIXES": ["PYRO:", "pyro:", "PYRONAME:", "PyroName:", "PYROMETA:", "pyrometa:", "PYROx:", "PYR", ""]}},
         covers=["accepted:PYRO", "accepted:PYRONAME", "accepted:PYROMETA", "rejected:PyroError",
                 "check:text-form-is-a-fixed-point", "check:equal-uris-have-equal-hashes", "check:uri-through-a-serializer-is-equal"],
         native_patch=env.native_env,
         desc="URI(s) for s = protocol prefix (any letter case variants listed) + L arbitrary code points; str/parse/eq/hash/state round trips; NS_PORT symbolic"),
    Spec("pair", h_pair,
         {"quick": {"LO": 1, "LH": 2, "ALPHA": ASCII_NAME}, "thorough": {"LO": 3, "LH": 3, "ALPHA": ASCII_NAME}},
         covers=["pair", "check:equal-uris-have-equal-hashes"],
         native_patch=env.native_env,
         desc="two URIs with symbolic state (protocol, object, host/port or socket name over an ASCII name alphabet): == / != / hash / location / text are mutually consistent"),
]
