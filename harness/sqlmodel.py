"""A table model of sqlite3 for exactly the statement shapes nameserver.SqlStorage issues (symbolic mode only; the
native replay uses the real sqlite3 on a temporary file).  Cells may hold symbolic strings; WHERE name=? and LIKE
are decided by the solver.  Transactions: one snapshot per connection, commit() makes the changes durable, leaving the
`with` block with an exception rolls back, the k-th execute may raise DatabaseError (fault injection)."""
import sqlite3

from pysym.api import eq, And, Or, Not
from pysym.values import is_sym


def norm(sql):
    return " ".join(sql.split())


class Database:
    def __init__(self):
        self.names = []        # rows (id, name, uri)      -- committed state
        self.metadata = []     # rows (object id, tag)
        self.next_id = 1
        self.executes = 0
        self.fail_at = None    # index of the execute() call that raises DatabaseError
        self.seen = []         # concrete names the table has held
        self.log = []


DB = [None]


def like(pattern, text):
    """sqlite LIKE: % any sequence, _ any one character, ASCII letters compared case-insensitively, no escape"""
    def fold(c):
        # c is a one-character string (possibly symbolic); returns a comparison helper
        return c

    def same(pc, tc):
        return Or(eq(pc, tc), ascii_case_pair(pc, tc))

    def rec(pi, ti):
        if pi == len(pattern):
            return ti == len(text)
        pc = pattern[pi]
        if eq(pc, "%"):
            for k in range(ti, len(text) + 1):
                if rec(pi + 1, k):
                    return True
            return False
        if ti >= len(text):
            return False
        if eq(pc, "_"):
            return rec(pi + 1, ti + 1)
        if same(pc, text[ti]):
            return rec(pi + 1, ti + 1)
        return False
    return rec(0, 0)


def ascii_case_pair(a, b):
    """one is an ASCII letter and the other the same letter in the other case"""
    from pysym.strings import StrVec
    from pysym.values import mkbool
    import z3
    x = StrVec.lift(a).chars[0]
    y = StrVec.lift(b).chars[0]
    return mkbool(z3.Or(z3.And(x >= 65, x <= 90, y == x + 32), z3.And(x >= 97, x <= 122, y == x - 32)))


class Cursor:
    def __init__(self, conn):
        self.conn = conn
        self.rows = []
        self.lastrowid = None

    def execute(self, sql, params=()):
        self.rows = self.conn._run(norm(sql), tuple(params), self)
        return self

    def executemany(self, sql, seq):
        for params in seq:
            self.execute(sql, params)
        return self

    def fetchone(self):
        return self.rows[0] if self.rows else None

    def fetchall(self):
        return list(self.rows)

    def __iter__(self):
        return iter(list(self.rows))

    def close(self):
        pass


class Connection:
    def __init__(self, db, isolation_level=""):
        self.db = db
        self.names = list(db.names)
        self.metadata = list(db.metadata)
        self.next_id = db.next_id
        self.autocommit = isolation_level is None
        self.fk = False          # sqlite enforces foreign keys only after PRAGMA foreign_keys=ON on this connection

    def cursor(self):
        return Cursor(self)

    def execute(self, sql, params=()):
        return Cursor(self).execute(sql, params)

    def executemany(self, sql, seq):
        return Cursor(self).executemany(sql, seq)

    def commit(self):
        self.db.names = list(self.names)
        self.db.metadata = list(self.metadata)
        self.db.next_id = self.next_id

    def rollback(self):
        self.names = list(self.db.names)
        self.metadata = list(self.db.metadata)
        self.next_id = self.db.next_id

    def close(self):
        pass

    def __enter__(self):
        return self

    def __exit__(self, et, ev, tb):
        if et is None:
            self.commit()
        else:
            self.rollback()
        return False

    def _run(self, sql, params, cur):
        db = self.db
        i = db.executes
        db.executes += 1
        db.log.append(sql)
        if db.fail_at is not None and i == db.fail_at:
            raise sqlite3.OperationalError("injected failure at statement %d" % i)
        if sql == "PRAGMA foreign_keys=ON":
            self.fk = True
            return []
        if sql.startswith("PRAGMA") or sql == "VACUUM":
            return []
        if sql == "DELETE FROM pyro_names WHERE name=?":
            hit = [r for r in self.names if eq(r[1], params[0])]
            for r in hit:
                if self.fk and [m for m in self.metadata if m[0] == r[0]]:
                    raise sqlite3.IntegrityError("FOREIGN KEY constraint failed")
            self.names = [r for r in self.names if r not in hit]
            return []
        if sql == "SELECT COUNT(*) FROM pyro_names" or sql == "SELECT count(*) FROM pyro_names":
            return [(len(self.names),)]
        if sql == "SELECT COUNT(*) FROM pyro_metadata":
            return [(len(self.metadata),)]
        if sql == "SELECT id, uri FROM pyro_names WHERE name=?":
            return [(r[0], r[2]) for r in self.names if eq(r[1], params[0])]
        if sql == "SELECT id FROM pyro_names WHERE name=?":
            return [(r[0],) for r in self.names if eq(r[1], params[0])]
        if sql == "SELECT EXISTS(SELECT 1 FROM pyro_names WHERE name=? LIMIT 1)":
            return [(1 if [r for r in self.names if eq(r[1], params[0])] else 0,)]
        if sql == "SELECT metadata FROM pyro_metadata WHERE object=?":
            return [(r[1],) for r in self.metadata if r[0] == params[0]]
        if sql == "DELETE FROM pyro_metadata WHERE object=?":
            self.metadata = [r for r in self.metadata if r[0] != params[0]]
            return []
        if sql == "DELETE FROM pyro_names WHERE id=?":
            if self.fk and [r for r in self.metadata if r[0] == params[0]]:
                raise sqlite3.IntegrityError("FOREIGN KEY constraint failed")
            self.names = [r for r in self.names if r[0] != params[0]]
            return []
        if sql == "DELETE FROM pyro_metadata":
            self.metadata = []
            return []
        if sql == "DELETE FROM pyro_names":
            if self.fk and self.metadata:
                raise sqlite3.IntegrityError("FOREIGN KEY constraint failed")
            self.names = []
            return []
        if sql == "INSERT INTO pyro_names(name, uri) VALUES(?,?)":
            for r in self.names:
                if eq(r[1], params[0]):
                    raise sqlite3.IntegrityError("UNIQUE constraint failed: pyro_names.name")
            # sqlite's rowid for INTEGER PRIMARY KEY: largest existing id + 1
            new_id = (max([r[0] for r in self.names]) + 1) if self.names else 1
            name = params[0]
            if is_sym(name):
                # a symbolic name that equals a name the table has held: store the concrete spelling
                for k in db.seen:
                    if eq(name, k):
                        name = k
                        break
            self.names.append((new_id, name, params[1]))
            cur.lastrowid = new_id
            return []
        if sql == "INSERT INTO pyro_metadata(object, metadata) VALUES (?,?)":
            if self.fk and not [r for r in self.names if r[0] == params[0]]:
                raise sqlite3.IntegrityError("FOREIGN KEY constraint failed")
            self.metadata.append((params[0], params[1]))
            return []
        if sql == "SELECT name FROM pyro_names":
            return [(r[1],) for r in self.names]
        if sql == "SELECT id, name, uri FROM pyro_names":
            return [(r[0], r[1], r[2]) for r in self.names]
        if sql == "SELECT name, uri FROM pyro_names":
            return [(r[1], r[2]) for r in self.names]
        if sql in ("SELECT id, name, uri FROM pyro_names WHERE substr(name, 1, ?)=?", "SELECT name, uri FROM pyro_names WHERE substr(name, 1, ?)=?"):
            n, prefix = params
            if not (n == len(prefix)):
                raise sqlite3.OperationalError("substr shape with a length other than the prefix length is not modelled")
            hits = [r for r in self.names if r[1].startswith(prefix)]
            if sql.startswith("SELECT id"):
                return [(r[0], r[1], r[2]) for r in hits]
            return [(r[1], r[2]) for r in hits]
        if sql == "SELECT id, name, uri FROM pyro_names WHERE name LIKE ?":
            return [(r[0], r[1], r[2]) for r in self.names if like(params[0], r[1])]
        if sql == "SELECT name, uri FROM pyro_names WHERE name LIKE ?":
            return [(r[1], r[2]) for r in self.names if like(params[0], r[1])]
        if sql.startswith("SELECT id, name, uri FROM pyro_names WHERE id IN (SELECT object FROM pyro_metadata WHERE metadata IN ("):
            if sql.endswith("GROUP BY object HAVING COUNT(metadata)=?)"):
                tags, want = list(params[:-1]), params[-1]
                out = []
                for r in self.names:
                    cnt = len([m for m in self.metadata if m[0] == r[0] and m[1] in tags])
                    if cnt == want and cnt > 0:
                        out.append((r[0], r[1], r[2]))
                return out
            tags = list(params)
            return [(r[0], r[1], r[2]) for r in self.names if [m for m in self.metadata if m[0] == r[0] and m[1] in tags]]
        raise sqlite3.OperationalError("statement shape not modelled: " + sql)


def connect(dbfile, *a, **kw):
    return Connection(DB[0], kw.get("isolation_level", ""))
