"""C18 -- thread pool: each connection served once or refused; workers stay bounded.

Schedule BMC (symbmc) over the real Pool.process/notify_done/close/num_workers and Worker.run/process, plus the
E1 refusal-path check shared with C05 (denyConnection answers CONNECTFAIL with the reason and closes)."""
import os
import json
import time
import multiprocessing as mp

SPECS = []

KNOWN_CLASSES = {
    "C18-close-racing-with-a-completing-job-strands-the-worker": ["at-quiescence: worker0-in-transit", "at-quiescence: worker1-in-transit", "at-quiescence: worker2-in-transit",
                                                                   "at-quiescence: worker3-in-transit", "at-quiescence: worker4-in-transit"],
    "C18-worker-leaving-busy-is-not-counted-so-the-pool-grows-beyond-its-size": ["workers-bounded"],
}

CONFIGS = {
    # (MIN, SIZE, J, with_close, K)
    # the last flag: a quiescent state with every job served must be reachable within K (vacuity guard for the
    # at-quiescence assertions); configurations without it still catch lost wake-ups, which quiesce early
    # optional 7th member True: close() may start at any moment, also while connections are still being submitted
    "quick": [(1, 1, 1, False, 32, True), (1, 1, 2, False, 44, True), (1, 2, 2, False, 50, True),
              (1, 1, 1, True, 50, True), (1, 2, 1, True, 50, True), (1, 1, 1, True, 44, False, True), (1, 2, 1, True, 44, False, True)],
    "thorough": [(1, 1, 1, False, 36, True), (1, 1, 2, False, 56, True), (1, 2, 2, False, 56, True), (2, 2, 2, False, 52, True),
                 (1, 3, 3, False, 48, False), (2, 3, 3, False, 44, False), (1, 2, 3, False, 48, False),
                 (1, 1, 1, True, 54, True), (1, 2, 2, True, 58, False), (2, 2, 2, True, 52, False),
                 (1, 1, 1, True, 50, False, True), (1, 2, 1, True, 50, False, True), (1, 2, 2, True, 54, False, True)],
}


def _run_config(args):
    from symbmc import pool, replay_pool
    cfg, known_active = args
    MIN, SIZE, J, wc, K, needq = cfg[:6]
    race = len(cfg) > 6 and cfg[6]
    res = {"config": cfg, "knowns": [], "violation": None, "errors": [], "inconclusive": [], "runs": []}
    t0 = time.time()
    try:
        if needq:
            # the bound grows with the code under test: K is raised until a quiescent all-served state is reachable
            reach = None
            for K in (K, K + 8, K + 16, K + 28):
                reach = pool.reach_quiescence(MIN, SIZE, J, wc, K, race)
                if reach == "sat":
                    break
            res["quiescence_reachable"] = reach
            res["K"] = K
            if reach != "sat":
                res["errors"].append("vacuity guard: no quiescent all-served state reachable within K=%d (%s)" % (K, reach))
        exclude = []
        for _ in range(4):
            out, _ = pool.check(MIN, SIZE, J, wc, K, exclude=tuple(exclude), race=race)
            res["runs"].append({"result": out["result"], "wall_s": round(out["wall_s"], 2), "assertions": out["assertions"],
                                "nodes": out["nodes"], "threads": out["threads"], "excluded": list(exclude)})
            res["encoded"] = out["encoded"]
            if out["result"] == "unsat":
                break
            if out["result"] != "sat":
                res["inconclusive"].append("solver answered %s for %r" % (out["result"], cfg))
                break
            v = out["violation"]
            det = replay_pool.replay(MIN, SIZE, J, wc, v["schedule"], v["label"], v["model_lines"])
            v["replay"] = {k: det[k] for k in det if k != "trace"}
            if not det["reproduced"]:
                res["errors"].append("schedule for '%s' does not reproduce on the real Pool with real threads: %r" % (v["label"], v["replay"]))
                break
            kl = [lab for lab, prefixes in KNOWN_CLASSES.items() if any(v["label"].startswith(p) for p in prefixes) and lab in known_active]
            if kl:
                res["knowns"].append({"label": kl[0], "violation": v})
                exclude.extend(KNOWN_CLASSES[kl[0]])
                continue
            res["violation"] = v
            break
    except Exception as x:
        import traceback
        res["errors"].append("%s: %s\n%s" % (type(x).__name__, x, traceback.format_exc()[-800:]))
    res["wall_s"] = round(time.time() - t0, 2)
    return res


def EXTRA(tier, seed):
    return pool_extra("C18", CONFIGS[tier])


def pool_extra(pid, cfgs):
    """the schedule check of the worker pool, reported under property `pid` (C05 and C13 use a subset of the configurations for
    their own clauses: no stranded worker / the worker slot of an ended connection is released)"""
    from pysym import check as C
    known = C.load_known(pid)
    ctx = mp.get_context("fork")
    with ctx.Pool(min(len(cfgs), 12)) as p:
        results = p.map(_run_config, [(c, tuple(known.keys())) for c in cfgs])
    out = {"lines": [], "violations": 0, "errors": [], "inconclusive": [], "known_hit": {}, "coverage": {}, "assumptions": []}
    samples = []
    states = transitions = validated = 0
    encoded = {}
    os.makedirs(os.path.join(C.OUT, "replays"), exist_ok=True)
    for i, r in enumerate(results):
        MIN, SIZE, J, wc, K, needq = r["config"][:6]
        K = r.get("K", K)
        wc = "racing" if len(r["config"]) > 6 and r["config"][6] else wc
        print("[" + pid + "/symbmc] MIN=%d SIZE=%d jobs=%d close=%s K=%d: %s wall=%.1fs" % (
            MIN, SIZE, J, wc, K, [x["result"] for x in r["runs"]], r["wall_s"]), flush=True)
        out["errors"].extend(r["errors"])
        out["inconclusive"].extend(r["inconclusive"])
        encoded.update(r.get("encoded", {}))
        for x in r["runs"]:
            states += K + 1
            transitions += K * x["nodes"]
        for k in r["knowns"]:
            out["known_hit"][k["label"]] = k
            validated += 1
            samples.append({"config": r["config"], "known_finding": k["label"], "schedule": k["violation"]["schedule"][:60],
                            "replay_on_real_threads": k["violation"]["replay"]})
        if r["violation"]:
            v = r["violation"]
            path = os.path.join(C.OUT, "replays", "%s-symbmc-%d.json" % (pid, i))
            json.dump({"property": pid, "engine": "symbmc", "target": "pool", "config": r["config"], "label": v["label"],
                       "schedule": v["schedule"], "model_lines": v["model_lines"]}, open(path, "w"), indent=1)
            out["lines"].append("VIOLATION property=%s replay=%s" % (pid, path))
            out["lines"].append("  '%s' violated at step %d for MIN=%d SIZE=%d jobs=%d close=%s; the schedule reproduces on the real Pool with real threads: %r"
                                % (v["label"], v["step"], MIN, SIZE, J, wc, v["replay"]))
            out["violations"] += 1
            validated += 1
    out["coverage"] = {"states": states, "transitions": transitions, "traces_validated_against_impl": validated,
                       "samples": samples or [{"configs": [list(c) for c in cfgs], "result": "unsat for every configuration"}],
                       "symbmc": {"configs": [{"MIN": r["config"][0], "SIZE": r["config"][1], "jobs": r["config"][2], "close": r["config"][3],
                                               "K": r["config"][4], "runs": r["runs"], "quiescence_reachable": r.get("quiescence_reachable")} for r in results],
                                  "functions_encoded": encoded}}
    out["assumptions"] = ["statement-level atomicity (CPython GIL: one container method call is atomic)",
                          "a job's execution is one atomic step of its worker (other threads interleave before and after it)",
                          "pool.close() starts after the last submission, except in the configurations marked racing, where it may start at any moment",
                          "schedules of at most K statements; thread counts and job counts as listed"]
    return out
