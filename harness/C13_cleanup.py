"""C13 -- every connection is cleaned up exactly once, however it ends.

Real code executed symbolically: svr_threads.ClientConnectionJob.__call__/handleConnection,
svr_multiplex.SocketServer_Multiplex.events/_handleConnection/handleRequest, socketutil.SocketConnection.close,
server.Daemon._clientDisconnect/handleRequest/_handshake, callcontext track/untrack_resource."""
from Pyro5 import protocol, errors, server, config
from Pyro5.server import expose, behavior
from Pyro5.callcontext import current_context
from pysym.runner import Spec
from pysym.api import And, Or, Not, Implies, eq
from pysym import env
from harness import rig, servers


class Resource:
    def __init__(self, name, faulty=False):
        self.name = name
        self.faulty = faulty
        self.closes = 0

    def close(self):
        self.closes += 1
        if self.faulty:
            raise RuntimeError("close of %s failed" % self.name)

    def __hash__(self):
        # deterministic, so that the iteration order of the WeakSet holding the resources is the same in
        # the symbolic run and in the native replay
        return sum(ord(c) for c in self.name)

    def __eq__(self, other):
        return self is other


@expose
class Target:
    def ok(self):
        return "fine"

    def insecure(self):
        raise errors.SecurityError("not allowed")

    def broken(self):
        raise ValueError("broken")


@expose
@behavior(instance_mode="session")
class SessionThing:
    def hello(self):
        return "hi"


ENDINGS = ["eof", "reset", "timeout", "cut", "garbage", "security-error", "ordinary-error-then-eof"]


def h_connection_end(S, B):
    rig.reset(S)
    servertype = S.choice("servertype", ["thread", "multiplex"])
    ending = S.choice("ending", ENDINGS)
    n_ok = S.choice("requests_served_before", [0, 1])
    hook_raises = S.flag("disconnect_hook_raises")
    n_tracked = S.choice("tracked_resources", [0, 1, 2, 4])
    shutdown_fails = S.flag("peer_reset_so_shutdown_fails")
    n_streams = S.choice("open_item_streams_of_this_connection", [0, 2])
    config.ITER_STREAM_LINGER = S.choice("ITER_STREAM_LINGER", [0, 30.0]) if n_streams else 30.0
    daemon = rig.make_daemon()
    daemon.objectsById["obj"] = Target()
    daemon.objectsById["sess"] = SessionThing
    SessionThing._pyroInstancing = ("session", None)
    hook_calls = []

    def hook(conn):
        hook_calls.append(conn)
        if hook_raises:
            raise RuntimeError("hook failed")
    daemon.clientDisconnect = hook
    sockA = rig.FakeSock("A", ("10.0.0.1", 1111))
    sockB = rig.FakeSock("B", ("10.0.0.2", 2222))
    sockA.shutdown_fails = shutdown_fails
    connect = rig.build_message(protocol.MSG_CONNECT, 0, 0, 3, {"handshake": "hi", "object": "obj"})
    sockA.queue(connect)
    for i in range(n_ok):
        sockA.queue(rig.build_message(protocol.MSG_INVOKE, 0, i + 1, 3, ("sess", "hello", (), {})))
    if ending == "cut":
        whole = rig.build_message(protocol.MSG_INVOKE, 0, 9, 3, ("obj", "ok", (), {}))
        c = S.int("cut_at", 1, 47)
        sockA.queue(whole[:c])
    elif ending == "garbage":
        g = S.bytes("garbage", 40)
        S.assume(g[0] != 0x50, "the garbage does not start like a Pyro message")
        sockA.queue(g)
    elif ending == "security-error":
        sockA.queue(rig.build_message(protocol.MSG_INVOKE, 0, 9, 3, ("obj", "insecure", (), {})))
    elif ending == "ordinary-error-then-eof":
        sockA.queue(rig.build_message(protocol.MSG_INVOKE, 0, 9, 3, ("obj", "broken", (), {})))
    if ending in ("reset", "timeout"):
        sockA.at_end = ending
    # a second connection that stays open
    connB = rig.connection(sockB)
    resB = Resource("B")
    connB.tracked_resources.add(resB)
    connB.pyroInstances[SessionThing] = SessionThing()
    daemon.streaming_responses["streamB"] = (connB, 900.0, 0, iter([7]))
    resources = []
    untracked = Resource("untracked")

    def adorn(conn):
        # state of an established connection: tracked resources (some failing on close), one untracked again
        for i in range(n_tracked):
            r = Resource("r%d" % i, faulty=(i % 2 == 1))
            resources.append(r)
            conn.tracked_resources.add(r)
        for i in range(n_streams):
            daemon.streaming_responses["streamA%d" % i] = (conn, 900.0, 0, iter([1, 2, 3]))
        current_context.client = conn
        current_context.track_resource(untracked)
        current_context.untrack_resource(untracked)
    escaped = None
    connA = None
    released = False
    if servertype == "thread":
        job = servers.make_job(daemon, sockA)
        connA = job.csock
        adorn(connA)
        try:
            job()
            released = True      # the job returned: the worker goes back to the pool
        except Exception as x:
            escaped = x
    else:
        srv = servers.make_multiplex(daemon)
        srv.selector.register(connB, 1, srv)
        srv.sock.pending.append(sockA)
        try:
            srv.events([srv.sock])
            regs = [c for c in srv.selector.registered if c is not srv.sock and c is not connB]
            S.check("established", len(regs) == 1)
            if len(regs) == 1:
                connA = regs[0]
                adorn(connA)
                for _ in range(n_ok + 3):
                    if connA in srv.selector.registered:
                        srv.events([connA])
                released = connA not in srv.selector.registered
                S.check("other-connection-keeps-its-selector-slot", connB in srv.selector.registered)
        except Exception as x:
            escaped = x
    S.cover("ended:" + ending)
    S.check("server-loop-survives", escaped is None)
    if connA is None:
        return
    S.check("disconnect-hook-called-exactly-once", len(hook_calls) == 1)
    if len(hook_calls) >= 1:
        S.check("disconnect-hook-gets-this-connection", hook_calls[0] is connA)
    S.check("worker-or-selector-slot-released", released)
    S.check("socket-closed", sockA.closed >= 1)
    S.check("session-instances-dropped", len(connA.pyroInstances) == 0)
    # closing again (as __del__ does) must not close anything twice
    connA.close()
    for r in resources:
        S.check("tracked-resource-closed-exactly-once", r.closes == 1)
    S.check("untracked-resource-not-closed", untracked.closes == 0)
    # item streams the ended connection had open: forgotten at once without a linger period, kept ownerless with one
    mine = [k for k in daemon.streaming_responses if k.startswith("streamA")]
    if n_streams:
        S.cover("ended-with-open-streams")
        if config.ITER_STREAM_LINGER > 0:
            S.check("open-streams-linger-ownerless", len(mine) == n_streams and all(daemon.streaming_responses[k][0] is None for k in mine))
        else:
            S.check("open-streams-are-forgotten", mine == [])
    sb = daemon.streaming_responses.get("streamB")
    S.check("other-connection-stream-untouched", sb is not None and sb[0] is connB and sb[2] == 0)
    S.check("other-connection-resource-untouched", resB.closes == 0)
    S.check("other-connection-socket-open", sockB.closed == 0)
    S.check("other-connection-keeps-its-session", len(connB.pyroInstances) == 1)
    S.observe("hook", len(hook_calls))
    S.observe("closes", sorted(r.closes for r in resources))
    S.observe("replies", len(sockA.sent))


def _reset():
    from pysym.runner import default_reset
    default_reset()


INTERPRET_MODULES = ["harness.rig", "harness.servers"]
STUBS = rig.STUBS

SPECS = [
    Spec("connection_end", h_connection_end, {"quick": {}, "thorough": {}},
         covers=["ended:" + e for e in ENDINGS] + ["ended-with-open-streams", "check:tracked-resource-closed-exactly-once",
                                                    "check:disconnect-hook-called-exactly-once"],
         native_patch=env.native_env, reset=_reset,
         desc="an established connection (0/1 requests served, 0..4 tracked resources incl. failing ones, a session instance, 0 or 2 open item streams with and without a linger period) ends in one of 7 ways (cut at every byte offset 1..47, 40 arbitrary garbage bytes, ...), thread job and multiplex event path, raising disconnect hook, failing shutdown; a second connection stays open"),
]


def EXTRA(tier, seed):
    """the worker slot of an ended connection is released, also when the next connection arrives at that very moment (schedule BMC of the real Pool/Worker code, shared with C18)"""
    from harness import C18_pool
    cfgs = [(1, 1, 1, False, 32, True), (1, 1, 2, False, 44, True)] if tier == "quick" else \
        [(1, 1, 1, False, 36, True), (1, 1, 2, False, 56, True), (1, 2, 2, False, 56, True)]
    return C18_pool.pool_extra("C13", cfgs)
