"""C01 -- values cross the wire unchanged, identically for arguments and results.

Real code executed symbolically: serializers.{Serpent,Marshal,Json,Msgpack}Serializer.dumpsCall/loadsCall/dumps/loads,
recreate_classes, JsonSerializer.default, MsgpackSerializer.default/object_hook/ext_hook,
MarshalSerializer.convert_obj_into_marshallable, _convertToBytes, class_to_dict.  The third-party codecs are replaced
at their API boundary by the type-rule models of harness/codecs.py (native replays use the real libraries).
Symbolic leaves: unbounded integers (so the 64-bit boundaries of msgpack are just values), booleans and strings of
arbitrary code points; the shape of the value and the remaining leaf kinds are choices."""
import datetime
import decimal
import math
import uuid

from Pyro5 import serializers, config, errors, core
from pysym.runner import Spec
from pysym.api import And, Or, Not, Implies, eq
from pysym import env
from harness import codecs

SERIALIZERS = ["serpent", "marshal", "json", "msgpack"]
LEAVES = ["none", "bool", "int", "bigint", "hugeint", "str", "float", "inf", "nan", "bytes", "complex", "uuid", "decimal", "date", "datetime"]
CORE_LEAVES = ("none", "bool", "int", "bigint", "hugeint", "str", "float", "inf", "nan")
WRAPS = ["bare", "list", "tuple", "dict", "list-in-dict", "set", "frozenset", "mixed-set"]
CORE_WRAPS = ("bare", "list", "dict", "list-in-dict")


def make_leaf(S, kind):
    if kind == "none":
        return None
    if kind == "bool":
        return S.flag("leaf_bool")
    if kind == "int":
        return S.int("leaf_int", -(2 ** 70), 2 ** 70)
    if kind == "bigint":
        v = S.int("leaf_bigint", -(10 ** 22), 10 ** 22)
        S.assume(Or(v >= 2 ** 64, v < -(2 ** 63)), "the big integer lies outside the 64-bit ranges")
        return v
    if kind == "hugeint":
        # integers of more than 70 decimal digits are listed values (their decimal rendering is outside the integer model)
        return S.choice("leaf_hugeint", [10 ** 70 + 7, -(10 ** 75) - 3, 2 ** 300])
    if kind == "str":
        return S.str("leaf_str", 3)
    if kind == "float":
        return 1.5
    if kind == "inf":
        return float("inf")
    if kind == "nan":
        return float("nan")
    if kind == "bytes":
        return b"\x00\xffab"
    if kind == "complex":
        return complex(1.5, -2.0)
    if kind == "uuid":
        return uuid.UUID(int=0x1234)
    if kind == "decimal":
        return decimal.Decimal("12.50")
    if kind == "date":
        return datetime.date(2024, 2, 29)
    return datetime.datetime(2024, 2, 29, 13, 14, 15)


def wrap(kind, leaf):
    if kind == "bare":
        return leaf
    if kind == "list":
        return [leaf, 1]
    if kind == "tuple":
        return (leaf, "x")
    if kind == "dict":
        return {"key": leaf, "other": [1, 2]}
    if kind == "list-in-dict":
        return {"k": [leaf, {"deep": leaf}]}
    if kind == "set":
        return {leaf}
    if kind == "mixed-set":
        return {leaf, "x", 7}         # members without a common ordering
    return frozenset([leaf])


def same(a, b):
    """structural equality that treats nan as equal to nan and distinguishes list/tuple/set"""
    if isinstance(a, float) and isinstance(b, float) and not isinstance(a, bool):
        if math.isnan(a) and math.isnan(b):
            return True
        return a == b
    if type_of(a) is not type_of(b):
        return False
    if isinstance(a, (list, tuple)):
        if len(a) != len(b):
            return False
        r = True
        for x, y in zip(a, b):
            r = And(r, same(x, y))
        return r
    if isinstance(a, dict):
        if sorted(a.keys()) != sorted(b.keys()):
            return False
        r = True
        for k in a:
            r = And(r, same(a[k], b[k]))
        return r
    if isinstance(a, (set, frozenset)):
        if len(a) != len(b):
            return False
        la, lb = sorted(a, key=repr), sorted(b, key=repr)
        r = True
        for x, y in zip(la, lb):
            r = And(r, same(x, y))
        return r
    return eq(a, b)


def type_of(x):
    return type(x)


def attempt(f):
    try:
        return ("value", f())
    except Exception as x:
        return ("raised", type(x).__name__)


def h_roundtrip(S, B):
    sname = S.choice("serializer", B["SERIALIZERS"])
    ser = serializers.serializers[sname]
    lk = S.choice("leaf", B["LEAVES"])
    wk = S.choice("wrap", B["WRAPS"])
    if wk in ("set", "frozenset", "mixed-set") and lk in ("int", "bigint", "str", "bool", "nan", "none"):
        S.assume(False, "sets hold concrete hashable leaves in this harness")
    leaf = make_leaf(S, lk)
    v = wrap(wk, leaf)
    # serpent's documented option for bytes (literal instead of base64 dict), switched at run time like any config item
    bytes_literal = sname == "serpent" and lk == "bytes" and S.flag("config.SERPENT_BYTES_REPR")
    config.SERPENT_BYTES_REPR = bytes_literal
    r_args = attempt(lambda: ser.loadsCall(ser.dumpsCall("obj", "method", (v,), {"kw": v})))
    r_res = attempt(lambda: ser.loads(ser.dumps(v)))
    # the two other call forms the client sends: a batch (kwargs is None, the calls are the positional arguments)
    # and an attribute write (kwargs is None)
    r_batch = attempt(lambda: ser.loadsCall(ser.dumpsCall("obj", "<batch>", [("method", (v,), {"kw": v})], None)))
    r_attr = attempt(lambda: ser.loadsCall(ser.dumpsCall("obj", "__setattr__", ("name", v), None)))
    S.cover("ser:" + sname)
    ext_leaf = lk in ("bigint", "hugeint", "complex", "date", "datetime") or (lk == "int" and not S.must(And(leaf >= -(2 ** 63), leaf < 2 ** 64)))
    S.known("C01-msgpack-arguments-are-decoded-without-the-ext-hook", And(sname == "msgpack", ext_leaf),
            checks=["same-mapping-for-arguments-and-results", "arguments-and-results-serialise-alike", "positional-and-keyword-arguments-map-alike"])
    if r_args[0] == "value":
        obj, method, vargs, kwargs = r_args[1]
        S.check("call-header-unchanged", obj == "obj" and method == "method" and len(vargs) == 1 and sorted(kwargs.keys()) == ["kw"])
        v_pos, v_kw = vargs[0], kwargs["kw"]
        S.check("positional-and-keyword-arguments-map-alike", same(v_pos, v_kw))
    S.check("arguments-and-results-serialise-alike", r_args[0] == r_res[0])
    S.check("attribute-call-form-serialises-like-a-plain-call", r_attr[0] == r_args[0])
    # (in a batch the value is nested one level deeper; serializers that convert only top-level arguments -- marshal --
    #  may refuse a non-core value there that they accept as a direct argument: demanded for the lossless core only)
    if lk in CORE_LEAVES and wk in CORE_WRAPS:
        S.check("batch-call-form-serialises-like-a-plain-call", r_batch[0] == r_args[0])
    if r_args[0] == "value" and r_batch[0] == "value" and r_attr[0] == "value":
        b_obj, b_method, b_calls, b_kwargs = r_batch[1]
        S.check("batch-call-header-unchanged", b_obj == "obj" and b_method == "<batch>" and len(b_calls) == 1 and not b_kwargs)
        S.check("batch-member-arguments-map-like-plain-arguments",
                And(b_calls[0][0] == "method", same(b_calls[0][1][0], v_pos), same(b_calls[0][2]["kw"], v_pos)))
        a_obj, a_method, a_vargs, a_kwargs = r_attr[1]
        S.check("attribute-write-maps-like-plain-arguments", And(a_method == "__setattr__", a_vargs[0] == "name", same(a_vargs[1], v_pos)))
    if r_res[0] == "raised":
        S.cover("unsupported:" + sname)
        # a serializer may refuse a type it does not support, but never a lossless-core value
        S.check("lossless-core-is-supported-by-every-serializer", not (lk in CORE_LEAVES and wk in CORE_WRAPS))
        if sname in ("json", "msgpack") and wk in ("set", "frozenset", "mixed-set"):
            # a set is delivered as the list of its members: it is refused only if one of its members is
            members_ok = [attempt(lambda: ser.loads(ser.dumps(m)))[0] == "value" for m in v]
            S.check("json-msgpack-refuse-a-set-only-for-an-unsupported-member", not all(members_ok))
        S.observe("outcome", (r_args[0], r_res))
        return
    v_res = r_res[1]
    if r_args[0] == "value":
        S.check("same-mapping-for-arguments-and-results", same(v_pos, v_res))
    # the mapping changes nothing when applied twice
    again = attempt(lambda: ser.loads(ser.dumps(v_res)))
    S.check("mapped-value-is-serialisable-again", again[0] == "value")
    if again[0] == "value":
        S.check("mapping-is-idempotent", same(again[1], v_res))
    if lk in CORE_LEAVES and wk in CORE_WRAPS:
        S.cover("core")
        S.check("lossless-core-arrives-unchanged", same(v_res, v))
    # documented specifics
    if sname == "msgpack" and lk in ("bigint", "complex", "date", "datetime") and wk == "bare":
        S.check("msgpack-restores-its-extension-types-in-results", same(v_res, v))
    if sname in ("json", "msgpack") and wk in ("set", "frozenset", "mixed-set"):
        # documented: these serializers deliver a set as a list of its (individually mapped) members
        members = [ser.loads(ser.dumps(m)) for m in v]
        S.check("json-msgpack-deliver-a-set-as-the-list-of-its-members",
                isinstance(v_res, (list, tuple)) and sorted([repr(m) for m in v_res]) == sorted([repr(m) for m in members]))
    if sname in ("json", "msgpack") and wk == "tuple":
        S.check("tuples-arrive-as-lists", isinstance(v_res, list))
    if sname == "marshal" and wk in ("tuple", "set", "frozenset", "mixed-set") and lk in CORE_LEAVES:
        S.check("marshal-keeps-tuples-and-sets", same(v_res, v))
    if sname == "serpent" and lk == "bytes" and wk == "bare":
        if bytes_literal:
            S.check("serpent-bytes-arrive-as-bytes-with-the-bytes-option", isinstance(v_res, bytes) and v_res == leaf)
        else:
            S.check("serpent-bytes-arrive-as-base64-dict", isinstance(v_res, dict) and v_res.get("encoding") == "base64")
    S.observe("outcome", (r_args[0], r_res[0], leaf_repr(v_res)))


def leaf_repr(v):
    return type(v).__name__


def _reset():
    from pysym.runner import default_reset
    default_reset()


def h_interrupted(S, B):
    """the serializer objects are shared by all threads of a process.  While one thread serialises call A it can be
    interrupted at any statement of the serializer's own code (dumpsCall, and the default() fallback the codec calls back
    for values it cannot write itself) and another thread serialises a complete value B in between.  Both still arrive as
    what was sent: serialising keeps no state between (or across) messages."""
    from pysym.api import statement_lines
    sname = S.choice("serializer", B["SERIALIZERS"])
    ser = serializers.serializers[sname]
    fns = [type(ser).dumpsCall] + ([type(ser).default] if hasattr(type(ser), "default") else []) + \
          ([type(ser).convert_obj_into_marshallable] if hasattr(type(ser), "convert_obj_into_marshallable") else [])
    fn = S.choice("interrupted_function", fns)
    at = S.choice("interrupted_before_line", statement_lines(fn))
    big = S.int("A.big", 2 ** 64, 2 ** 70)
    argA = [{"n": big}, set([1, 2, 3]), (4, 5)] if sname != "marshal" else [{"n": big}, set([1, 2, 3]), core.URI("PYRO:o@h:1")]
    valB = ["B", set([7, 8]), 2 ** 65 + 1]
    got = {}

    def serialise_B():
        got["B"] = attempt(lambda: ser.loads(ser.dumps(valB)))
    with S.preempting(fn, at, serialise_B):
        wireA = attempt(lambda: ser.dumpsCall("obj", "method", argA, {"k": argA[1]}))
    S.cover("interrupted" if "B" in got else "not-reached")
    S.check("interrupted-call-serialises", wireA[0] == "value")
    if wireA[0] != "value":
        return
    rA = attempt(lambda: ser.loadsCall(wireA[1]))
    rPlain = attempt(lambda: ser.loadsCall(ser.dumpsCall("obj", "method", argA, {"k": argA[1]})))
    S.check("interrupted-call-arrives-like-an-undisturbed-one", And(rA[0] == rPlain[0], same(rA[1], rPlain[1])) if rA[0] == "value" and rPlain[0] == "value" else rA[0] == rPlain[0])
    if "B" in got:
        rB = attempt(lambda: ser.loads(ser.dumps(valB)))
        S.check("interrupting-value-arrives-like-an-undisturbed-one", got["B"][0] == rB[0] and (got["B"][0] != "value" or same(got["B"][1], rB[1])))
    S.observe("reached", "B" in got)


INTERPRET_MODULES = ["harness.codecs"]
STUBS = codecs.stubs()

SPECS = [
    Spec("roundtrip", h_roundtrip,
         {"quick": {"SERIALIZERS": SERIALIZERS, "LEAVES": LEAVES, "WRAPS": ["bare", "list", "tuple", "dict", "set", "mixed-set"]},
          "thorough": {"SERIALIZERS": SERIALIZERS, "LEAVES": LEAVES, "WRAPS": WRAPS}},
         covers=["ser:serpent", "ser:marshal", "ser:json", "ser:msgpack", "core", "check:lossless-core-arrives-unchanged",
                 "check:same-mapping-for-arguments-and-results", "check:mapping-is-idempotent",
                 "check:json-msgpack-deliver-a-set-as-the-list-of-its-members", "check:batch-call-form-serialises-like-a-plain-call"],
         native_patch=env.native_env, reset=_reset,
         desc="a value (15 leaf kinds: symbolic unbounded int incl. beyond 64 bit and beyond 70 decimal digits, symbolic bool, symbolic string of any code points, floats incl. inf/nan, bytes, complex, uuid, decimal, date, datetime) bare or inside list/tuple/dict/nested/set/frozenset, sent as positional argument, keyword argument and result through each serializer's real dumpsCall/loadsCall/dumps/loads with the codec libraries modelled at their API"),
    Spec("interrupted", h_interrupted, {"quick": {"SERIALIZERS": SERIALIZERS}, "thorough": {"SERIALIZERS": SERIALIZERS}},
         covers=["interrupted", "check:interrupted-call-arrives-like-an-undisturbed-one", "check:interrupting-value-arrives-like-an-undisturbed-one"],
         native_patch=env.native_env, reset=_reset,
         desc="a call being serialised (arguments with an integer beyond 64 bit, a set, a tuple/URI) is interrupted before any one statement of the serializer's dumpsCall / default / convert_obj_into_marshallable while a complete other value is serialised and decoded (another thread's work scheduled at that point); both arrive like undisturbed ones"),
]
