"""C12 -- per-call context never leaks between calls or clients.

Real code executed symbolically: server.Daemon.handleRequest (context fill, reply annotations), _handshake reply,
Daemon.__annotations, _sendExceptionResponse, _OnewayCallThread (context snapshot), callcontext._CallContext.
Two consecutive steps on ONE serving thread: client A's request (its method sets a response annotation and records
the context it sees), then client B's request/handshake/ping on the same thread."""
from Pyro5 import protocol, errors, server, config, core
from Pyro5.server import expose, oneway
from Pyro5.callcontext import current_context
from pysym.runner import Spec
from pysym.api import And, Or, Not, Implies, eq
from pysym import env
from harness import rig

SEEN = []


def snapshot(tag):
    SEEN.append((tag, current_context.client, current_context.client_sock_addr, current_context.seq,
                 current_context.msg_flags, current_context.serializer_id,
                 dict(current_context.annotations) if current_context.annotations is not None else None,
                 current_context.correlation_id))


@expose
class Target:
    def tagged(self):
        snapshot("tagged")
        current_context.response_annotations["TAGA"] = b"for-A-only"
        return 1

    def tagged_raise(self):
        snapshot("tagged_raise")
        current_context.response_annotations["TAGA"] = b"for-A-only"
        raise ValueError("boom")

    @oneway
    def tagged_oneway(self):
        snapshot("tagged_oneway")
        current_context.response_annotations["TAGA"] = b"for-A-only"

    def tagged_stream(self):
        snapshot("tagged_stream")
        current_context.response_annotations["TAGA"] = b"for-A-only"
        return iter([1, 2])

    def plain(self):
        snapshot("plain")
        return 2

    def plain_raise(self):
        snapshot("plain_raise")
        raise KeyError("nope")


@expose
class SessionTarget:
    """registered as a class (an instance per connection): its constructor runs on behalf of the connection's first request"""

    def __init__(self):
        snapshot("constructor")

    def plain(self):
        snapshot("plain")
        return 3


STEP1 = ["call-tagged", "call-tagged_raise", "oneway-tagged_oneway", "batch-tagged", "batch-tagged_raise",
         "call-unknown-member", "call-unknown-object", "call-tagged_stream", "batchoneway-tagged"]
STEP2 = ["call-plain", "call-plain_raise", "ping", "handshake", "batch-plain", "oneway-then-call", "call-sessionclass"]


def request_for(kind, seq, ser, flags_extra, ann, corr):
    f = flags_extra & ~(protocol.FLAGS_ONEWAY | protocol.FLAGS_BATCH | protocol.FLAGS_COMPRESSED | protocol.FLAGS_KEEPSERIALIZED)
    what, _, member = kind.partition("-")
    if what == "oneway":
        f = f | protocol.FLAGS_ONEWAY
    if what == "batchoneway":
        f = f | protocol.FLAGS_BATCH | protocol.FLAGS_ONEWAY       # the members of a oneway batch run on the serving thread
        call = ("obj", "<batch>", [(member, (), {})], {})
    elif what == "batch":
        f = f | protocol.FLAGS_BATCH
        call = ("obj", "<batch>", [(member, (), {})], {})
    elif member == "unknown-member":
        call = ("obj", "nosuchmember", (), {})
    elif member == "unknown-object":
        call = ("nosuchobject", "plain", (), {})
    elif member == "sessionclass":
        call = ("cls", "plain", (), {})       # the first request of this connection for a class registered per session
    else:
        call = ("obj", member, (), {})
    return rig.build_message(protocol.MSG_INVOKE, f, seq, ser, call, ann, corr), f


def h_two_steps(S, B):
    rig.reset(S)
    del SEEN[:]
    k1 = S.choice("step1", STEP1)
    k2 = S.choice("step2", STEP2)
    seqA = S.int("seqA", 0, 65535)
    seqB = S.int("seqB", 0, 65535)
    serA = S.choice("serA", B["SERS"])
    serB = S.choice("serB", B["SERS"][-1:])
    flagsA = S.int("flagsA", 0, 65535)
    flagsB = S.int("flagsB", 0, 65535) if B["FLAGSB"] else 0
    annA = {"REQA": S.bytes("annA", 2)} if S.flag("A_has_request_annotation") else None
    corrA = rig.FakeUUID(int=0xAAAA) if S.flag("A_has_correlation_id") else None
    run_oneway_thread_early = S.flag("oneway_thread_runs_before_step2")
    daemon = rig.make_daemon()
    daemon.objectsById["obj"] = Target()
    daemon.objectsById["cls"] = SessionTarget
    SessionTarget._pyroInstancing = ("session", None)
    sockA = rig.FakeSock("A", ("10.0.0.1", 1111))
    sockB = rig.FakeSock("B", ("10.0.0.2", 2222))
    connA = rig.connection(sockA)
    connB = rig.connection(sockB)
    # invariant of the serving thread at the start of a request (established by the previous request)
    current_context.response_annotations = {}
    # stale values from "the previous request" that this request must overwrite
    current_context.client = connB
    current_context.client_sock_addr = ("9.9.9.9", 9)
    current_context.seq = 12345
    current_context.msg_flags = 0
    current_context.serializer_id = 0
    current_context.annotations = {"OLD!": b"stale"}
    # ---- step 1: client A
    reqA, fA = request_for(k1, seqA, serA, flagsA, annA, corrA)
    sockA.queue(reqA)
    a_send_fails = S.flag("A_vanished_before_its_reply_is_sent")
    if a_send_fails:
        sockA.send_fault = "reset"
    try:
        daemon.handleRequest(connA)
    except errors.CommunicationError as x:
        S.check("step1-communication-error-only-when-send-fails", a_send_fails)
    except Exception as x:
        S.check("step1-contained", False)
    if run_oneway_thread_early:
        rig.run_pending_threads()
    inv_after_step1 = len(current_context.response_annotations) == 0
    # ---- step 2: client B, same serving thread
    nseen = len(SEEN)
    if k2 == "ping":
        sockB.queue(rig.build_message(protocol.MSG_PING, 0, seqB, serB, "ping"))
        daemon.handleRequest(connB)
    elif k2 == "handshake":
        sockB.queue(rig.build_message(protocol.MSG_CONNECT, 0, seqB, serB, {"handshake": "hi", "object": "obj"}))
        daemon._handshake(connB)
    elif k2 == "oneway-then-call":
        reqB, fB = request_for("call-plain", seqB, serB, flagsB, None, None)
        sockB.queue(reqB)
        daemon.handleRequest(connB)
    else:
        reqB, fB = request_for(k2, seqB, serB, flagsB, None, None)
        sockB.queue(reqB)
        try:
            daemon.handleRequest(connB)
        except Exception as x:
            S.check("step2-contained", False)
    rig.run_pending_threads()
    S.cover("two-steps")
    S.known("C12-annotations-of-a-stream-result-or-oneway-batch-reach-the-next-handshake-reply",
            k1 in ("call-tagged_stream", "batchoneway-tagged"),
            checks=["B-reply-carries-no-annotation-of-A"])
    S.known("C12-response-annotations-survive-a-raising-call", k1 == "call-tagged_raise",
            checks=["B-reply-carries-no-annotation-of-A"])
    S.known("C12-oneway-thread-shares-the-response-annotation-dict", And(k1 == "oneway-tagged_oneway", run_oneway_thread_early),
            checks=["B-reply-carries-no-annotation-of-A"])
    # ---- oracle: replies to A
    repliesA = rig.parse_sent(sockA)
    for r in repliesA:
        for key in r.annotations:
            S.check("A-reply-annotations-are-its-own", key in ("TAGA", "STRM"))
    # ---- oracle: replies to B never carry A's annotation
    repliesB = rig.parse_sent(sockB)
    S.check("B-got-a-reply", len(repliesB) >= 1)
    for r in repliesB:
        S.check("B-reply-carries-no-annotation-of-A", "TAGA" not in r.annotations)
    # (whether the serving thread's dict is empty between requests is an implementation matter: what the statement
    #  demands is that no reply carries another call's annotations, which is checked on every reply above)
    S.note("annotations-left-on-the-thread-after-step1" if not inv_after_step1 else "thread-clean-after-step1")
    # ---- oracle: the context each method saw is that of its own request
    for rec in SEEN:
        tag, client, addr, seq, mflags, ser, anns, corr = rec
        S.cover("seen:" + tag)
        if tag.startswith("tagged"):
            S.check("A-method-sees-A-connection", client is connA)
            S.check("A-method-sees-A-peer", addr == ("10.0.0.1", 1111))
            S.check("A-method-sees-A-seq", seq == seqA)
            S.check("A-method-sees-A-serializer", ser == serA)
            S.check("A-method-sees-A-flags", (mflags & ~protocol.FLAGS_CORR_ID) == (fA & ~protocol.FLAGS_CORR_ID))
            if annA is None:
                S.check("A-method-sees-no-stale-annotations", anns == {})
            else:
                S.check("A-method-sees-A-annotations", And(len(anns) == 1, "REQA" in anns))
            if corrA is not None:
                S.check("A-method-sees-A-correlation-id", eq(bytes(corr.bytes), corrA.bytes))
        else:
            S.check("B-method-sees-B-connection", client is connB)
            S.check("B-method-sees-B-peer", addr == ("10.0.0.2", 2222))
            S.check("B-method-sees-B-seq", seq == seqB)
            S.check("B-method-sees-no-annotations-of-A", anns == {})
            S.check("B-method-sees-own-correlation-id", corrA is None or Not(eq(bytes(corr.bytes), corrA.bytes)))
    S.observe("seen", [r[0] for r in SEEN])
    S.observe("repliesB", [sorted(r.annotations.keys()) for r in repliesB])


CALL1 = ["tagged", "plain", "tagged_raise"]
CALL2 = ["plain", "tagged", "plain_raise", "oneway", "reply-lost", "server-gone"]


def client_call(p, sock, kind):
    from Pyro5 import client
    try:
        if kind == "oneway":
            client._RemoteMethod(p._pyroInvoke, "tagged_oneway", 0)()
        elif kind in ("reply-lost", "server-gone"):
            client._RemoteMethod(p._pyroInvoke, "tagged", 0)()
        else:
            client._RemoteMethod(p._pyroInvoke, kind, 0)()
        return "returned"
    except errors.CommunicationError:
        return "communication-error"
    except (ValueError, KeyError):
        return "method-exception"


def h_client_side(S, B):
    """the client half: after each call the calling thread observes only the annotations of that call's reply"""
    rig.reset(S)
    del SEEN[:]
    daemon = rig.make_daemon()
    daemon.objectsById["obj"] = Target()
    p, sock = rig.make_proxy(daemon, "obj", methods={"tagged", "plain", "tagged_raise", "plain_raise", "tagged_oneway"},
                             oneway={"tagged_oneway"})
    sock.server_on_own_thread = True
    sock.timeout = 2.0
    k1 = S.choice("call1", CALL1)
    k2 = S.choice("call2", CALL2)
    if S.flag("stale_annotations_before_the_first_call"):
        current_context.response_annotations = {"OLD!": b"left by an earlier call"}
    else:
        current_context.response_annotations = {}
    out1 = client_call(p, sock, k1)
    obs1 = sorted(current_context.response_annotations.keys())
    S.cover("client:" + out1)
    S.check("first-call-outcome", out1 == ("method-exception" if k1.endswith("raise") else "returned"))
    if k1 == "tagged":
        S.check("client-sees-the-annotation-of-its-reply", obs1 == ["TAGA"])
    elif k1 == "plain":
        S.check("client-sees-no-annotation-when-the-reply-has-none", obs1 == [])
    else:
        S.check("client-sees-at-most-the-annotation-of-the-failed-call", obs1 in ([], ["TAGA"]))
    if k2 == "reply-lost":
        # the request is executed, its reply never arrives
        orig = sock.inbox
        sock.at_end = "timeout"

        class Sink(list):
            def append(self, x):
                pass
        sock.inbox = Sink()
    elif k2 == "server-gone":
        sock.server_alive = False
        sock.at_end = "reset"
    out2 = client_call(p, sock, k2)
    rig.run_pending_threads()
    obs2 = sorted(current_context.response_annotations.keys())
    S.cover("client2:" + k2)
    if k2 == "tagged":
        S.check("second-call-sees-its-own-annotation", out2 == "returned" and obs2 == ["TAGA"])
    elif k2 == "plain":
        S.check("second-call-sees-no-annotation-of-the-first", out2 == "returned" and obs2 == [])
    elif k2 == "plain_raise":
        S.check("failed-second-call-sees-no-annotation-of-the-first", out2 == "method-exception" and obs2 == [])
    elif k2 == "oneway":
        S.check("oneway-call-sees-no-annotation-of-the-first", out2 == "returned" and obs2 == [])
    else:
        S.check("call-without-a-reply-sees-no-annotation-of-the-first", out2 == "communication-error" and obs2 == [])
    S.observe("client", (out1, obs1, out2, obs2))


def _reset():
    from pysym.runner import default_reset
    default_reset()
    del SEEN[:]


INTERPRET_MODULES = ["harness.rig"]
STUBS = rig.STUBS

SPECS = [
    Spec("client_side", h_client_side, {"quick": {}, "thorough": {}},
         covers=["client:returned", "client:method-exception", "client2:oneway", "client2:reply-lost",
                 "check:second-call-sees-no-annotation-of-the-first", "check:call-without-a-reply-sees-no-annotation-of-the-first"],
         native_patch=env.native_env, reset=_reset,
         desc="two consecutive calls of one client thread through the real Proxy._pyroInvoke against the real daemon (served on its own thread): first call tagged / plain / raising, second call plain / tagged / raising / oneway / reply lost / server gone; the client's response annotations after each call are those of that call's reply only"),
    Spec("two_steps", h_two_steps, {"quick": {"SERS": [1, 3], "FLAGSB": False}, "thorough": {"SERS": [1, 2, 3, 4], "FLAGSB": True}},
         covers=["two-steps", "seen:constructor", "check:B-reply-carries-no-annotation-of-A", "check:A-method-sees-A-seq",
                 "check:B-method-sees-B-connection"],
         native_patch=env.native_env, reset=_reset,
         desc="client A's request (7 kinds; method sets a response annotation and records its context) followed on the same serving thread by client B's request (7 kinds incl. ping, handshake and the first call on a per-session class, whose constructor records the context too); symbolic seq/flags/serializer; the oneway thread runs before or after step 2"),
]
