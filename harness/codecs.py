"""Models of the four third-party codecs at their API boundary (symbolic mode only; native replays use the real
libraries, and every explored path is re-run natively and compared -- that is the differential test of these
models).  A model turns a python value into a 'wire tree' following the library's type rules and calls back into the
Pyro5 hooks it was given (default / object_hook / ext_hook); the byte format itself is out of scope."""
import base64
import datetime
import decimal
import uuid

from pysym.values import is_sym

INT64_MIN = -(2 ** 63)
UINT64_MAX = 2 ** 64 - 1


class Wire:
    """stands for the bytes / text a codec produced; carries the wire tree"""

    def __init__(self, codec, tree, text=False):
        self.codec = codec
        self.tree = tree
        self.text = text

    def encode(self, encoding="utf-8"):
        return Wire(self.codec, self.tree, False)

    def decode(self, encoding="utf-8"):
        return Wire(self.codec, self.tree, True)

    def __len__(self):
        return 50


class FakeExt:
    """msgpack.ExtType stand-in that accepts symbolic data"""

    def __init__(self, code, data):
        self.code = code
        self.data = data

    def __eq__(self, other):
        return isinstance(other, FakeExt) and other.code == self.code and other.data == self.data

    def __hash__(self):
        return 1


class Bin:
    def __init__(self, data):
        self.data = data


# ---- msgpack ------------------------------------------------------------------------------------
def mp_pack(o, default):
    for _ in range(8):
        if o is None or isinstance(o, bool):
            return o
        if isinstance(o, int):
            if INT64_MIN <= o and o <= UINT64_MAX:
                return o
            if default is None:
                raise OverflowError("Integer value out of range")
            o = default(o)
            continue
        if isinstance(o, (float, str)):
            return o
        if isinstance(o, (bytes, bytearray, memoryview)):
            return Bin(bytes(o))
        if isinstance(o, (list, tuple)) and not isinstance(o, FakeExt):
            return [mp_pack(x, default) for x in o]
        if isinstance(o, dict):
            return {"__map__": [(mp_pack(k, default), mp_pack(v, default)) for k, v in o.items()]}
        if isinstance(o, FakeExt):
            return o
        if default is None:
            raise TypeError("can not serialize %r object" % type(o).__name__)
        o = default(o)
    raise ValueError("recursion limit exceeded")


def mp_unpack(t, object_hook, ext_hook):
    if isinstance(t, list):
        return [mp_unpack(x, object_hook, ext_hook) for x in t]
    if isinstance(t, Bin):
        return t.data
    if isinstance(t, dict):
        d = {}
        for k, v in t["__map__"]:
            d[mp_unpack(k, object_hook, ext_hook)] = mp_unpack(v, object_hook, ext_hook)
        return object_hook(d) if object_hook is not None else d
    if isinstance(t, FakeExt):
        if ext_hook is not None:
            return ext_hook(t.code, t.data)
        return FakeExt(t.code, t.data)
    return t


def msgpack_packb(o, use_bin_type=True, default=None, **kw):
    return Wire("msgpack", mp_pack(o, default))


def msgpack_unpackb(data, raw=False, object_hook=None, ext_hook=None, **kw):
    if not isinstance(data, Wire) or data.codec != "msgpack":
        raise ValueError("not msgpack data")
    return mp_unpack(data.tree, object_hook, ext_hook)


# ---- json ---------------------------------------------------------------------------------------
def js_pack(o, default):
    for _ in range(8):
        if o is None or isinstance(o, (bool, int, float, str)):
            return o
        if isinstance(o, (list, tuple)):
            return [js_pack(x, default) for x in o]
        if isinstance(o, dict):
            out = {}
            for k, v in o.items():
                if isinstance(k, str):
                    kk = k
                elif k is None:
                    kk = "null"
                elif isinstance(k, bool):
                    kk = "true" if k else "false"
                elif isinstance(k, (int, float)):
                    kk = str(k)
                else:
                    raise TypeError("keys must be str, int, float, bool or None")
                out[kk] = js_pack(v, default)
            return out
        if default is None:
            raise TypeError("Object of type %s is not JSON serializable" % type(o).__name__)
        o = default(o)
    raise ValueError("Circular reference detected")


def js_copy(t):
    if isinstance(t, list):
        return [js_copy(x) for x in t]
    if isinstance(t, dict):
        return {k: js_copy(v) for k, v in t.items()}
    return t


def json_dumps(o, ensure_ascii=True, default=None, **kw):
    return Wire("json", js_pack(o, default), True)


def json_loads(data, **kw):
    if not isinstance(data, Wire) or data.codec != "json":
        raise ValueError("not json text")
    return js_copy(data.tree)


# ---- marshal ------------------------------------------------------------------------------------
def ma_copy(o):
    if o is None or isinstance(o, (bool, int, float, complex, str)):
        return o
    if isinstance(o, (bytes, bytearray)):
        return bytes(o)
    if isinstance(o, tuple):
        return tuple(ma_copy(x) for x in o)
    if isinstance(o, list):
        return [ma_copy(x) for x in o]
    if isinstance(o, frozenset):
        return frozenset(ma_copy(x) for x in o)
    if isinstance(o, set):
        return set(ma_copy(x) for x in o)
    if isinstance(o, dict):
        return {ma_copy(k): ma_copy(v) for k, v in o.items()}
    raise ValueError("unmarshallable object")


def marshal_dumps(o, *a):
    return Wire("marshal", ma_copy(o))


def marshal_loads(data):
    if not isinstance(data, Wire) or data.codec != "marshal":
        raise ValueError("bad marshal data")
    return ma_copy(data.tree)


# ---- serpent (data types only) ------------------------------------------------------------------
def sp_pack(o, bytes_repr=False):
    if bytes_repr:
        global _SP_BYTES_REPR
        _SP_BYTES_REPR = True
        try:
            return sp_pack(o)
        finally:
            _SP_BYTES_REPR = False
    if o is None or isinstance(o, (bool, int, float, complex, str)):
        return o
    if isinstance(o, BaseException):
        # serpent's own exception serializer (module_in_classname=True as Pyro5 calls it)
        return {"__class__": type(o).__module__ + "." + type(o).__name__, "__exception__": True,
                "args": sp_pack(tuple(o.args)), "attributes": sp_pack(dict(vars(o)))}
    if isinstance(o, (bytes, bytearray, memoryview)):
        if _SP_BYTES_REPR:
            return bytes(o)        # bytes_repr=True: written as a bytes literal, read back as bytes
        return {"data": base64.b64encode(bytes(o)).decode("ascii"), "encoding": "base64"}
    if isinstance(o, tuple):
        return tuple(sp_pack(x) for x in o)
    if isinstance(o, list):
        return [sp_pack(x) for x in o]
    if isinstance(o, (set, frozenset)):
        if len(o) == 0:
            return ()                      # serpent writes an empty set as an empty tuple
        for x in o:
            # serpent accepts only "primitive hashable" members (learned from the native differential runs)
            if _SP_BYTES_REPR and isinstance(x, bytes):
                continue                   # with bytes_repr=True a bytes member is a primitive literal
            if x is None or isinstance(x, (uuid.UUID, datetime.date, bytes, bytearray, memoryview, tuple, frozenset)):
                raise TypeError("one of the keys in a dict or set is not of a primitive hashable type")
        return set(sp_pack(x) for x in o)
    if isinstance(o, dict):
        return {sp_pack(k): sp_pack(v) for k, v in o.items()}
    if isinstance(o, uuid.UUID):
        return str(o)
    if isinstance(o, decimal.Decimal):
        return str(o)
    if isinstance(o, datetime.datetime):
        return o.isoformat()
    if isinstance(o, datetime.date):
        return o.isoformat()
    if type(o).__module__.startswith("Pyro5."):
        # Pyro registers its own classes with serpent (pyro_class_serpent_serializer): they are written as the class dict
        from Pyro5 import serializers as _ser
        return sp_pack(_ser.SerializerBase.class_to_dict(o))
    raise TypeError("serpent model: type %s is outside the modelled data domain" % type(o).__name__)


_SP_BYTES_REPR = False


def serpent_dumps(o, indent=False, module_in_classname=False, bytes_repr=False, **kw):
    return Wire("serpent", sp_pack(o, bool(bytes_repr)))


def serpent_loads(data):
    if not isinstance(data, Wire) or data.codec != "serpent":
        raise ValueError("bad serpent data")
    return sp_pack(data.tree) if False else _sp_copy(data.tree)


def _sp_copy(t):
    if isinstance(t, tuple):
        return tuple(_sp_copy(x) for x in t)
    if isinstance(t, list):
        return [_sp_copy(x) for x in t]
    if isinstance(t, set):
        return set(_sp_copy(x) for x in t)
    if isinstance(t, dict):
        return {k: _sp_copy(v) for k, v in t.items()}
    return t


def stubs():
    import msgpack
    import json
    import marshal
    import serpent
    return [
        (msgpack, "packb", msgpack_packb, "symbolic"), (msgpack, "unpackb", msgpack_unpackb, "symbolic"),
        (msgpack, "ExtType", FakeExt, "symbolic"),
        (json, "dumps", json_dumps, "symbolic"), (json, "loads", json_loads, "symbolic"),
        (marshal, "dumps", marshal_dumps, "symbolic"), (marshal, "loads", marshal_loads, "symbolic"),
        (serpent, "dumps", serpent_dumps, "symbolic"), (serpent, "loads", serpent_loads, "symbolic"),
    ]
