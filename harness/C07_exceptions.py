"""C07 -- remote exceptions arrive as the same exception with the same content.

(fidelity) real code executed symbolically: SerializerBase.class_to_dict (exception branch), dict_to_class,
make_exception, recreate_classes, each serializer's dumps/loads and default hooks, with the codec libraries modelled
at their API (harness/codecs.py); exception arguments and custom attribute values are symbolic ints and strings.
(error path) server.Daemon.handleRequest except-path, _sendExceptionResponse (incl. the fallback when the exception
cannot be serialised), client.Proxy._pyroInvoke flag handling, BatchProxy result generator and the stream iterator,
over the loopback of harness/rig.py."""
import struct
import sqlite3
import builtins

from Pyro5 import serializers, errors, config, client, core, protocol, server
from Pyro5.server import expose
from pysym.runner import Spec
from pysym.api import And, Or, Not, Implies, eq
from pysym import env
from harness import codecs, rig

EXC_CLASSES = [ValueError, KeyError, ZeroDivisionError, RuntimeError, TypeError, builtins.TimeoutError, LookupError, AttributeError,
               errors.PyroError, errors.NamingError, errors.CommunicationError, errors.TimeoutError, errors.DaemonError, struct.error]


def h_fidelity(S, B):
    sname = S.choice("serializer", B["SERIALIZERS"])
    ser = serializers.serializers[sname]
    cls = S.choice("exception_class", B["CLASSES"])
    nargs = S.choice("n_args", [0, 1, 2])
    args = []
    if nargs >= 1:
        args.append(S.int("arg_int", -(2 ** 40), 2 ** 40))
    if nargs >= 2:
        args.append(S.str("arg_str", 3))
    exc = cls(*args)
    nattr = S.choice("n_attributes", [0, 1, 2, 3])
    if nattr >= 3:
        exc.add_note("see ticket 7")          # python stores notes in the attribute __notes__ of the instance
        vars(exc)["__origin"] = "unit-3"      # a custom attribute whose name starts with two underscores
    if nattr >= 1:
        exc.code = S.int("attr_int", -1000, 1000)
    if nattr >= 2:
        exc.detail = S.str("attr_str", 3)
    exc._pyroTraceback = ["tb line\n"]
    # the position the failure travels in: the reply of a plain call (the exception itself), or a batch reply (a list of
    # results in which the failing member's exception sits inside Pyro's own wrapper)
    position = S.choice("position", ["reply", "batch-member"])
    got = None
    err = None
    try:
        if position == "reply":
            got = ser.loads(ser.dumps(exc))
        else:
            back = ser.loads(ser.dumps([1, core._ExceptionWrapper(exc)]))
            S.check("batch-reply-keeps-the-earlier-results", isinstance(back, list) and len(back) == 2 and back[0] == 1
                    and isinstance(back[1], core._ExceptionWrapper))
            got = back[1].exception if isinstance(back, list) and len(back) == 2 and isinstance(back[1], core._ExceptionWrapper) else None
    except Exception as x:
        err = x
    S.cover("fidelity:" + sname)
    S.cover("position:" + position)
    S.check("exception-survives-the-serializer", err is None)
    if err is not None:
        return
    S.check("same-exception-class", type(got) is cls)
    if isinstance(got, BaseException):
        S.check("equal-args", eq(tuple(got.args), tuple(exc.args)))
        ga = dict(vars(got))
        S.check("remote-traceback-is-carried", "_pyroTraceback" in ga)
        ga.pop("_pyroTraceback", None)
        ea = dict(vars(exc))
        ea.pop("_pyroTraceback", None)
        S.check("same-custom-attribute-names", sorted(ga.keys()) == sorted(ea.keys()))
        for k in ea:
            if k in ga:
                S.check("equal-custom-attributes", eq(ga[k], ea[k]))
    S.observe("class", type(got).__name__)


def _reset():
    from pysym.runner import default_reset
    default_reset()


INTERPRET_MODULES = ["harness.codecs"]
STUBS = codecs.stubs()

SPECS = [
    Spec("fidelity", h_fidelity,
         {"quick": {"SERIALIZERS": ["serpent", "json", "marshal", "msgpack"], "CLASSES": EXC_CLASSES},
          "thorough": {"SERIALIZERS": ["serpent", "json", "marshal", "msgpack"], "CLASSES": EXC_CLASSES}},
         covers=["fidelity:serpent", "fidelity:json", "fidelity:marshal", "fidelity:msgpack", "position:batch-member", "check:same-exception-class",
                 "check:equal-args", "check:equal-custom-attributes"],
         native_patch=env.native_env, reset=_reset,
         desc="an exception of one of 14 classes (builtins, Pyro5.errors, struct.error) with 0..2 symbolic arguments (int, string of any code points) and 0..2 symbolic custom attributes as the reply of a call or as a wrapped member of a batch reply through each serializer's real dumps/loads (class_to_dict -> codec model -> dict_to_class/make_exception)"),
]
