"""C03 -- a call returns its own reply or fails; never another call's answer.

Real code executed symbolically: client.Proxy._pyroInvoke, __pyroCheckSequence, _pyroRelease, __pyroCreateConnection
(reconnect + handshake after a failure), _RemoteMethod.__call__ (retry loop), protocol.recv_stub/ReceivingMessage,
socketutil.SocketConnection/receive_data/send_data; on the server side the real Daemon._handshake/handleRequest.
The transport between them applies one solver-chosen fault to every request; the proxy's sequence counter is symbolic
(so the 16-bit wrap-around is just another value)."""
import errno
import socket

from Pyro5 import protocol, errors, server, config, client, core, socketutil
from Pyro5.server import expose, oneway
from pysym.runner import Spec
from pysym.api import And, Or, Not, Implies, eq
from pysym import env
from harness import rig

EXECUTED = {}       # token -> number of executions on the server


@expose
class Target:
    def work(self, token):
        EXECUTED[token] = EXECUTED.get(token, 0) + 1
        return ("done", token)

    def fail(self, token):
        EXECUTED[token] = EXECUTED.get(token, 0) + 1
        raise ValueError(token)

    @oneway
    def fire(self, token):
        EXECUTED[token] = EXECUTED.get(token, 0) + 1


FAULTS = ["delivered", "reply-lost", "reply-cut", "reset-before-delivery", "reset-after-processing", "stale-reply-in-front",
          "reply-seq-altered", "reply-duplicated"]


class Transport:
    """per-path fault script shared by all connections of the proxy"""

    def __init__(self, S, B):
        self.S = S
        self.B = B
        self.requests = 0
        self.stale = None         # bytes of a complete earlier reply (for the stale-reply fault)
        self.healthy = False
        self.fixed = None         # a fault applied to every request from now on (instead of a drawn one)


TRANSPORT = [None]


class FaultySock(rig.LoopbackSock):
    def sendall(self, data):
        tr = TRANSPORT[0]
        S = tr.S
        self._send_check()
        if not self.handshaken:
            return rig.LoopbackSock.sendall(self, data)      # the handshake leg is healthy
        i = tr.requests
        tr.requests += 1
        fault = tr.fixed if tr.fixed else ("delivered" if (tr.healthy or i >= tr.B["FAULTY_REQUESTS"]) else S.choice("fault%d" % i, FAULTS))
        self.sent.append(data)
        self.requests += 1
        if fault == "reset-before-delivery":
            self.at_end = "reset"
            return
        n = len(self.server_sock.sent)
        self.server_sock.queue(data)
        try:
            self.daemon.handleRequest(self.server_conn)
        except Exception as x:
            self.server_alive = False
        replies = self.server_sock.sent[n:]
        if fault == "delivered":
            for r in replies:
                self.inbox.append(r)
        elif fault == "reply-lost":
            self.at_end = "timeout"
        elif fault == "reset-after-processing":
            self.at_end = "reset"
        elif fault == "reply-cut":
            for r in replies:
                if tr.B["CUTS"] is None:
                    c = S.int("cut%d" % i, 0, 47)
                    S.assume(c < len(r), "the reply is cut inside the message")
                else:
                    c = S.choice("cut%d" % i, tr.B["CUTS"])
                self.inbox.append(r[:c])
            self.at_end = "reset"
        elif fault == "stale-reply-in-front":
            self.inbox.append(tr.stale)
            for r in replies:
                self.inbox.append(r)
        elif fault == "reply-duplicated":
            for r in replies:
                self.inbox.append(r)
                self.inbox.append(r)
        else:
            for r in replies:
                m = protocol.ReceivingMessage(r[:40], r[40:])
                wrong = S.int("wrongseq%d" % i, 0, 65535)
                S.assume(wrong != m.seq, "the altered sequence number differs from the real one")
                self.inbox.append(rig.build_message(m.type, m.flags, wrong, m.serializer_id, rig.reply_value(m) if not (m.flags & protocol.FLAGS_EXCEPTION) else rig.reply_value(m), tag="alt"))

    def send(self, data):
        self.sendall(data)
        return len(data)


def faulty_create_socket(bind=None, connect=None, reuseaddr=False, keepalive=True, timeout=-1, noinherit=False,
                         ipv6=False, nodelay=True, sslContext=None):
    if rig.RIG.daemon is None or connect is None:
        raise ConnectionRefusedError(errno.ECONNREFUSED, "connection refused")
    rig.RIG.connections += 1
    s = FaultySock(rig.RIG.daemon, "cli%d" % rig.RIG.connections)
    s.handshaken = False
    s.timeout = 2.0
    rig.RIG.client_socks.append(s)
    return s


def do_call(S, p, kind, token, retries):
    """one call through the public path (retry loop included); returns (outcome, value)"""
    try:
        if kind == "normal":
            v = client._RemoteMethod(p._pyroInvoke, "work", retries)(token)
        elif kind == "raising":
            v = client._RemoteMethod(p._pyroInvoke, "fail", retries)(token)
        elif kind == "oneway":
            v = client._RemoteMethod(p._pyroInvoke, "fire", retries)(token)
        else:
            it = p._pyroInvokeBatch([("work", (token,), {})])
            v = list(it)[0]
        return ("returned", v)
    except errors.CommunicationError as x:
        return ("communication-error", type(x).__name__)
    except ValueError as x:
        return ("method-exception", x.args[0] if x.args else None)
    except Exception as x:
        return ("other-error", type(x).__name__)


def h_calls(S, B):
    rig.reset(S)
    EXECUTED.clear()
    config.COMMTIMEOUT = 2.0
    retries = S.choice("MAX_RETRIES", B["RETRIES"])
    daemon = rig.make_daemon()
    daemon.objectsById["obj"] = Target()
    rig.RIG.daemon = daemon
    tr = Transport(S, B)
    TRANSPORT[0] = tr
    # a connected proxy in an arbitrary state of its sequence counter
    p = client.Proxy("PYRO:obj@localhost:9999")
    p._pyroMethods = {"work", "fail", "fire"}
    p._pyroOneway = {"fire"}
    p._pyroMaxRetries = retries
    sock = FaultySock(daemon, "cli0")
    sock.timeout = 2.0
    p._pyroConnection = socketutil.SocketConnection(sock, "obj")
    seq0 = S.int("_pyroSeq", 0, 65535)
    p._pyroSeq = seq0
    # a stale, complete reply of an earlier call: its sequence number lies d behind the counter
    # (a stale reply whose 16-bit number coincides with an expected one is indistinguishable by design of the
    #  protocol: the distance leaves room for the few increments this harness performs)
    d = S.int("stale_distance", 0, 65534 - 16)
    stale_seq = (seq0 - d) % 65536
    tr.stale = rig.build_message(protocol.MSG_RESULT, 0, stale_seq, 1, ("done", "OLD"), tag="stale")
    outcomes = []
    ncalls = B["CALLS"]
    for c in range(ncalls):
        kind = S.choice("call%d.kind" % c, B["KINDS"])
        token = "T%d" % c
        sends_before = tr.requests
        recv_before = sum(s.recv_calls for s in [sock] + rig.RIG.client_socks)
        out = do_call(S, p, kind, token, retries)
        rig.run_pending_threads()
        nsend = tr.requests - sends_before
        nrecv = sum(s.recv_calls for s in [sock] + rig.RIG.client_socks) - recv_before
        ex = EXECUTED.get(token, 0)
        outcomes.append((kind, out[0]))
        S.cover("call:" + out[0])
        S.check("no-unexpected-error-class", out[0] != "other-error")
        if out[0] == "returned":
            if kind == "oneway":
                S.check("oneway-returns-None", out[1] is None)
                S.check("oneway-consumes-no-reply", nrecv == 0)
                S.check("oneway-runs-at-most-once-per-attempt", ex <= nsend)
            else:
                S.check("returns-its-own-reply", out[1] == ("done", token))
                S.check("returning-call-ran-at-least-once", ex >= 1)
                S.check("returning-call-ran-once-per-attempt-at-most", ex <= nsend)
                if retries == 0:
                    S.check("without-retries-a-returning-call-ran-exactly-once", ex == 1)
        elif out[0] == "method-exception":
            S.check("raises-its-own-exception", kind == "raising" and out[1] == token)
            S.check("raising-call-ran-at-least-once", ex >= 1)
        else:
            S.check("failed-call-ran-at-most-1-plus-retries", ex <= 1 + retries)
            S.check("failed-call-released-the-connection", p._pyroConnection is None)
        S.check("attempts-bounded-by-retries", nsend <= 1 + retries)
    # after any failure the same proxy serves the next call correctly once the transport is healthy
    tr.healthy = True
    unread = p._pyroConnection is not None and (len(p._pyroConnection.sock.inbox) > 0 or p._pyroConnection.sock.cur is not None
                                                and p._pyroConnection.sock.pos < len(p._pyroConnection.sock.cur))
    out = do_call(S, p, "normal", "FINAL", 0)
    rig.run_pending_threads()
    if out[0] == "returned":
        S.check("final-call-returns-its-own-reply", out[1] == ("done", "FINAL"))
    else:
        # an unread duplicate / stale reply on the connection the proxy still holds may fail exactly this call
        S.check("healthy-transport-failure-only-because-of-unread-old-replies", out[0] == "communication-error" and unread)
    out2 = do_call(S, p, "normal", "FINAL2", 0)
    S.check("proxy-recovers-on-a-healthy-transport", out2 == ("returned", ("done", "FINAL2")))
    S.check("final-calls-ran-at-most-once", EXECUTED.get("FINAL", 0) <= 1 and EXECUTED.get("FINAL2", 0) == 1)
    S.observe("outcomes", outcomes)
    S.observe("final", out[0])
    S.observe("executed", sorted(EXECUTED.items()))


def leftover_duplicate(outcomes, p):
    """a duplicated reply that is still unread makes exactly the next reading call fail (then the connection is
    dropped and the proxy recovers): allowed by the statement ("or raises a communication error")"""
    return True


def stale_of(S, seq0, d):
    v = seq0 - d
    from pysym.api import ite
    return ite(v < 0, v + 65536, v)


def _reset():
    from pysym.runner import default_reset
    default_reset()
    EXECUTED.clear()


INTERPRET_MODULES = ["harness.rig"]
STUBS = [st for st in rig.STUBS if st[1] != "create_socket"] + [(socketutil, "create_socket", faulty_create_socket, "both")]

def h_retry_setting(S, B):
    """the retry bound in force is the proxy's setting at the time of the call, through the public attribute path
    (proxy.method(...)): earlier calls of the same method made under another setting do not count"""
    rig.reset(S)
    EXECUTED.clear()
    config.COMMTIMEOUT = 2.0
    daemon = rig.make_daemon()
    daemon.objectsById["obj"] = Target()
    rig.RIG.daemon = daemon
    tr = Transport(S, {"FAULTY_REQUESTS": 0, "CUTS": None})
    tr.healthy = True
    TRANSPORT[0] = tr
    p = client.Proxy("PYRO:obj@localhost:9999")
    p._pyroMethods = {"work", "fail", "fire"}
    p._pyroOneway = {"fire"}
    sock = FaultySock(daemon, "cli0")
    sock.timeout = 2.0
    p._pyroConnection = socketutil.SocketConnection(sock, "obj")
    before = S.choice("MAX_RETRIES_for_the_earlier_calls", [0, 1, 2])
    now = S.choice("MAX_RETRIES_now", [0, 1])
    p._pyroMaxRetries = before
    n_earlier = S.choice("earlier_calls_of_the_same_method", [0, 1])
    for i in range(n_earlier):
        S.check("earlier-call-returns-its-own-reply", p.work("E%d" % i) == ("done", "E%d" % i))
    p._pyroMaxRetries = now
    # from now on every reply is lost: the request is delivered and executed, its reply never arrives (reconnecting works)
    tr.healthy = False
    tr.fixed = "reply-lost"
    out = None
    try:
        out = ("returned", p.work("LATER"))
    except errors.CommunicationError as x:
        out = ("communication-error", type(x).__name__)
    S.cover("retry-setting")
    S.check("a-call-whose-reply-is-lost-fails", out[0] == "communication-error")
    S.check("failed-call-ran-at-most-1-plus-the-retries-in-force", EXECUTED.get("LATER", 0) <= 1 + now)
    S.observe("executed", EXECUTED.get("LATER", 0))


SPECS = [
    Spec("retry_setting", h_retry_setting, {"quick": {}, "thorough": {}},
         covers=["retry-setting", "check:failed-call-ran-at-most-1-plus-the-retries-in-force"], native_patch=env.native_env, reset=_reset,
         desc="proxy.work(...) through the public attribute path: 0 or 1 earlier calls under MAX_RETRIES 0/1/2, then the setting is changed to 0/1 and a call whose reply is lost (request executed) is made: it runs at most 1 + the retries now in force"),
    Spec("calls_under_faults", h_calls,
         {"quick": {"CALLS": 1, "FAULTY_REQUESTS": 2, "CUTS": [0, 5, 6, 39, 40, 47], "RETRIES": [0, 1], "KINDS": ["normal", "raising", "oneway", "batch"]},
          "thorough": {"CALLS": 2, "FAULTY_REQUESTS": 3, "CUTS": None, "RETRIES": [0, 1, 2], "KINDS": ["normal", "raising", "oneway", "batch"]}},
         covers=["call:returned", "call:communication-error", "call:method-exception", "check:returns-its-own-reply",
                 "check:proxy-recovers-on-a-healthy-transport", "check:failed-call-released-the-connection"],
         native_patch=env.native_env, reset=_reset,
         desc="CALLS calls (normal / raising / oneway / batch) on a connected proxy with a symbolic 16-bit sequence counter, MAX_RETRIES from the list, one of 8 faults per request for the first FAULTY_REQUESTS requests (lost, cut at a symbolic offset, reset before/after processing, stale reply with symbolic distance in front, sequence altered to a symbolic value, duplicated), reconnects through the real handshake; then one call on a healthy transport"),
]
