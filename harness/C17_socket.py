"""C17 -- socket reads and writes are exact under fragmentation and transient errors.

Real code executed symbolically: Pyro5.socketutil.receive_data, send_data (unmodified source).
The socket is a script object: every recv/send/sendall call draws its outcome from the solver."""
import errno
import socket

from Pyro5 import socketutil, errors
from pysym.runner import Spec
from pysym.api import And, Or, Not, Implies
from pysym import env

MAXSIZE = 200000
RETRY_ERRNOS = list(socketutil.ERRNO_RETRIES)
KINDS = ["data", "eof", "fatal", "timeout"] + ["retry%d" % e for e in sorted(set(RETRY_ERRNOS))]
STREAM = "wire"


class ScriptSock:
    """recv/send/sendall outcomes are drawn from S, constrained only by the POSIX contract"""

    def __init__(self, S, B, timeout):
        self.S = S
        self.B = B
        self.calls = 0
        self.pos = 0            # bytes delivered to the reader so far
        self.log = []           # (kind, k, requested)
        self.timeout = timeout
        self.wire = None        # bytes accepted by send()
        self.sent = 0
        self.eof_seen = False

    def gettimeout(self):
        return self.timeout

    def _draw(self, what):
        S = self.S
        i = self.calls
        self.calls += 1
        if i >= self.B["N"]:
            S.assume(False, "socket scripts longer than N=%d calls are outside the claim" % self.B["N"])
        return i, S.choice("%s%d.kind" % (what, i), KINDS)

    def _raise(self, kind):
        if kind == "fatal":
            raise OSError(errno.ECONNRESET, "connection reset by peer")
        if kind == "timeout":
            raise socket.timeout("timed out")
        raise OSError(int(kind[5:]), "retryable")

    def recv(self, n, flags=0):
        S = self.S
        i, kind = self._draw("r")
        if self.eof_seen:
            S.assume(kind == "eof", "end of stream is sticky: after recv() returned b'' every later recv() returns b''")
        self.log.append((kind, 0, n))
        if kind == "data":
            k = S.int("r%d.k" % i, 1, MAXSIZE)
            S.assume(k <= n, "recv(n) returns at most n bytes")
            self.log[-1] = (kind, k, n)
            chunk = S.stream_piece(STREAM, self.pos, k)
            self.pos = self.pos + k
            return chunk
        if kind == "eof":
            self.eof_seen = True
            return b""
        self._raise(kind)

    def send(self, data):
        S = self.S
        i, kind = self._draw("s")
        if kind == "eof":
            S.assume(False, "send() has no end-of-stream outcome")
        if kind == "data":
            k = S.int("s%d.k" % i, 1, MAXSIZE)
            S.assume(k <= len(data), "send() accepts between 1 and len(data) bytes")
            piece = data[:k]
            self.wire = piece if self.wire is None else self.wire + piece
            self.sent = self.sent + k
            return k
        self._raise(kind)

    def sendall(self, data):
        S = self.S
        i, kind = self._draw("a")
        if kind == "data":
            self.wire = data if self.wire is None else self.wire + data
            self.sent = self.sent + len(data)
            return None
        if kind == "eof":
            S.assume(False, "sendall() has no end-of-stream outcome")
        # a failing sendall may have transmitted any prefix of the data before it failed (sendall is not restartable)
        k = S.int("a%d.k" % i, 0, MAXSIZE)
        S.assume(k <= len(data), "a failing sendall() transmitted between 0 and len(data) bytes")
        if S.must(k == 0):
            pass
        else:
            piece = data[:k]
            self.wire = piece if self.wire is None else self.wire + piece
            self.sent = self.sent + k
        self._raise(kind)


class ScriptSockSSL(ScriptSock):
    def getpeercert(self):
        return None


def reference_receive(log, size):
    """15-line reference: what reading `size` bytes from this script must produce"""
    received = 0
    if size == 0:
        return ("empty-read", 0)
    for kind, k, n in log:
        if kind == "data":
            received = received + k
            if received == size:
                return ("ok", received)
        elif kind == "eof":
            return ("closed", received)
        elif kind == "fatal":
            return ("closed-fatal", received)
        elif kind == "timeout":
            return ("timeout", received)
    return ("script-exhausted", received)


def h_receive(S, B):
    size = S.int("size", 0, MAXSIZE)
    waitall = S.flag("USE_MSG_WAITALL")
    ssl_like = S.flag("ssl_like")
    socketutil.USE_MSG_WAITALL = waitall
    sock = (ScriptSockSSL if ssl_like else ScriptSock)(S, B, None)
    outcome = None
    result = None
    exc = None
    try:
        result = socketutil.receive_data(sock, size)
        outcome = "ok"
    except errors.ConnectionClosedError as x:
        outcome = "closed"
        exc = x
    except errors.TimeoutError as x:
        outcome = "timeout"
        exc = x
    except Exception as x:
        outcome = "other:" + type(x).__name__
        exc = x
    finally:
        socketutil.USE_MSG_WAITALL = ORIG_WAITALL
    ref, ref_received = reference_receive(sock.log, size)
    S.cover("recv:" + outcome)
    S.observe("outcome", outcome)
    S.observe("calls", sock.calls)
    # no surplus read: every request asks for at most what is still missing (and for something)
    got = 0
    for kind, k, n in sock.log:
        S.check("recv-request-within-remaining", And(n <= size - got, Or(n >= 1, size == 0)))
        got = got + k
    if ref == "empty-read":
        # reading 0 bytes: the implementation may or may not touch the socket; it must not deliver anything
        if outcome == "ok":
            S.check("recv-empty-read", And(len(result) == 0, sock.pos == 0))
    elif ref == "script-exhausted":
        # the implementation must also still be waiting -> it ran into the N-call limit; unreachable here
        S.check("reference-and-implementation-agree-on-termination", False)
    elif ref == "ok":
        S.check("recv-returns-when-complete", outcome == "ok")
        if outcome == "ok":
            S.check("recv-length", len(result) == size)
            S.check("recv-exact-bytes-in-order", covers(S, result, 0, size))
            S.check("recv-consumed-exactly", sock.pos == size)
            S.observe("result", result)
    elif ref == "closed":
        S.check("recv-early-eof-raises-closed", outcome == "closed")
        if outcome == "closed":
            pd = getattr(exc, "partialData", None)
            S.check("recv-partialData-present", pd is not None)
            if pd is not None:
                S.check("recv-partialData-exact", covers(S, pd, 0, ref_received))
                S.observe("partial", pd)
    elif ref == "closed-fatal":
        S.check("recv-fatal-errno-raises-closed", outcome == "closed")
    elif ref == "timeout":
        S.check("recv-timeout-raises-timeout", outcome == "timeout")
    S.check("recv-never-short-or-surplus", Implies(outcome == "ok", sock.pos == size))


def covers(S, value, start, length):
    """value == stream[start:start+length]"""
    if S.symbolic:
        from pysym.sbytes import SymBytes
        return SymBytes.lift(value).covers(STREAM, start, length)
    return bytes(value) == S.stream_piece(STREAM, start, length)


def h_send(S, B):
    size = S.int("size", 0, MAXSIZE)
    blocking = S.flag("blocking")
    sock = ScriptSock(S, B, None if blocking else 5.0)
    data = S.stream_piece(STREAM, 0, size)
    outcome = None
    try:
        socketutil.send_data(sock, data)
        outcome = "ok"
    except errors.ConnectionClosedError:
        outcome = "closed"
    except errors.TimeoutError:
        outcome = "timeout"
    except Exception as x:
        outcome = "other:" + type(x).__name__
    S.cover("send:" + outcome)
    S.observe("outcome", outcome)
    S.observe("calls", sock.calls)
    S.check("send-outcome-class", Or(outcome == "ok", outcome == "closed", outcome == "timeout"))
    if outcome == "ok":
        S.check("send-every-byte-once-in-order", sock.sent == size)
        if sock.wire is None:
            S.check("send-nothing-only-if-empty", size == 0)
        else:
            S.check("send-wire-is-the-buffer", covers(S, sock.wire, 0, size))
            S.observe("wire", sock.wire)
    else:
        # whatever was accepted before the failure is a prefix of the buffer, in order
        if sock.wire is not None:
            S.check("send-prefix-in-order", covers(S, sock.wire, 0, sock.sent))
        last = None
        # a failure must be caused by a fatal/timeout outcome of the script
        S.check("send-fails-only-on-fatal-or-timeout", sock.calls >= 1)


ORIG_WAITALL = socketutil.USE_MSG_WAITALL


def _reset():
    from pysym.runner import default_reset
    default_reset()
    socketutil.USE_MSG_WAITALL = ORIG_WAITALL


SPECS = [
    Spec("receive_data", h_receive,
         {"quick": {"N": 4}, "thorough": {"N": 6}},
         covers=["recv:ok", "recv:closed", "recv:timeout", "check:recv-exact-bytes-in-order",
                 "check:recv-partialData-exact", "check:recv-fatal-errno-raises-closed"],
         native_patch=env.native_env, reset=_reset,
         desc="receive_data over all socket scripts of <= N calls, size in [0,200000], MSG_WAITALL on/off, ssl-like or not"),
    Spec("send_data", h_send,
         {"quick": {"N": 4}, "thorough": {"N": 6}},
         covers=["send:ok", "send:closed", "send:timeout", "check:send-wire-is-the-buffer"],
         native_patch=env.native_env, reset=_reset,
         desc="send_data over all scripts of <= N send/sendall calls, blocking and timeout mode"),
]
