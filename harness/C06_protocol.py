"""C06 -- wire messages decode to exactly what was encoded; nothing else decodes.

Real code executed symbolically: Pyro5.protocol.SendingMessage.__init__, ReceivingMessage.__init__/validate/
add_payload, recv_stub, and below them socketutil.SocketConnection.recv -> receive_data over a fake socket that
fragments the byte stream at solver-chosen cut points."""
import struct
import zlib

from Pyro5 import protocol, errors, config, socketutil
from Pyro5.callcontext import current_context
from pysym.runner import Spec
from pysym.api import And, Or, Not, Implies, eq
from pysym import env

HEADER = protocol._header_size
MANAGED = protocol.FLAGS_COMPRESSED | protocol.FLAGS_CORR_ID
ANN_KEYS = ["ABCD", "zz9_", "abc", "ABéD", "HMAC", "ABCDE"]     # incl. wrong length and non-ascii


class CorrId:
    """stands in for uuid.UUID: the codec only uses truthiness and .bytes"""

    def __init__(self, b):
        self.bytes = b


class WireSock:
    """serves `wire` (then end-of-stream); a recv never crosses one of the cut points"""

    def __init__(self, wire, total, cuts):
        self.wire = wire
        self.total = total
        self.cuts = cuts
        self.pos = 0
        self.calls = 0

    def recv(self, n, flags=0):
        self.calls += 1
        avail = self.total - self.pos
        k = n
        if k > avail:
            k = avail
        for c in self.cuts:
            if self.pos < c and c < self.pos + k:
                k = c - self.pos
        chunk = self.wire[self.pos:self.pos + k]
        self.pos = self.pos + k
        return chunk

    def gettimeout(self):
        return None

    def shutdown(self, how):
        pass

    def close(self):
        pass


def total_len(S, b):
    return len(b)


# ------------------------------------------------------------------------------------------------
def h_roundtrip(S, B):
    msgtype = S.int("msgtype", -1, 256)
    serializer_id = S.int("serializer_id", -1, 256)
    seq = S.int("seq", -1, 65536)
    flags = S.int("flags", 0, 131071)
    plen = S.int("payload_len", 0, B["PAYLOAD"])
    payload = S.opaque("payload", plen)
    compression = S.flag("COMPRESSION")
    maxsize = S.int("MAX_MESSAGE_SIZE", 0, B["PAYLOAD"] + 40)
    nann = S.choice("n_annotations", list(range(B["ANN"] + 1)))
    annotations = {}
    ann_total = 0
    for i in range(nann):
        key = S.choice("ann%d.key" % i, ANN_KEYS[:B["KEYS"]])
        alen = S.choice("ann%d.len" % i, B["ANNLENS"])
        kind = S.choice("ann%d.kind" % i, ["bytes", "memoryview", "bytearray"][:B["KINDS"]])
        val = S.bytes("ann%d.val" % i, alen, kind)
        if key not in annotations:
            ann_total = ann_total + 8
        else:
            ann_total = ann_total - len(annotations[key])
        annotations[key] = val
        ann_total = ann_total + alen
    use_ann_none = S.flag("annotations_None") if nann == 0 else False
    has_corr = S.flag("has_correlation_id")
    corr = S.bytes("corr_id", 16) if has_corr else None
    if has_corr:
        S.assume(Not(eq(corr, b"\0" * 16)), "a correlation id is a uuid4, never all zero bytes")
    config.COMPRESSION = compression
    config.MAX_MESSAGE_SIZE = maxsize
    current_context.correlation_id = CorrId(corr) if has_corr else None
    keys_ok = all(len(k) == 4 and k.isascii() for k in annotations)
    fields_ok = And(msgtype >= 0, msgtype <= 255, serializer_id >= 0, serializer_id <= 255, seq >= 0, seq <= 65535,
                    flags <= 65535)
    sent = None
    enc_exc = None
    try:
        sent = protocol.SendingMessage(msgtype, flags, seq, serializer_id, payload,
                                       None if use_ann_none else annotations)
    except Exception as x:
        enc_exc = x
    if sent is None:
        S.cover("encode:raises:" + type(enc_exc).__name__)
        # the encoder may refuse only for a reason
        uncompressed_total = plen + ann_total
        too_large_possible = Or(uncompressed_total > maxsize, And(compression, plen > 100))
        S.check("encoder-refuses-only-invalid-input", Or(Not(fields_ok), not keys_ok, too_large_possible))
        if isinstance(enc_exc, errors.ProtocolError) and keys_ok:
            S.check("encoder-size-refusal-justified", too_large_possible)
        S.observe("encode", type(enc_exc).__name__)
        return
    S.cover("encode:ok")
    S.check("encoder-rejects-out-of-range-fields", fields_ok)
    S.check("encoder-rejects-bad-annotation-keys", keys_ok)
    wire_len = len(sent.data)
    declared = wire_len - HEADER
    S.check("encoder-respects-MAX_MESSAGE_SIZE", declared <= maxsize)
    if not compression:
        S.check("encoder-size-is-header-plus-annotations-plus-payload", wire_len == HEADER + ann_total + plen)
    # a following message is already on the wire: nothing of it may be consumed
    trailing = S.stream_piece("next-message", 0, 7)
    wire = sent.data + trailing
    total = wire_len + 7
    cuts = []
    for i in range(B["CUTS"]):
        c = S.int("cut%d" % i, 1, HEADER + B["PAYLOAD"] + 64)
        S.assume(c < wire_len, "cut points lie inside the message")
        cuts.append(c)
    sock = WireSock(wire, total, cuts)
    conn = socketutil.SocketConnection(sock, keep_open=True)
    msg = None
    dec_exc = None
    try:
        msg = protocol.recv_stub(conn)
    except Exception as x:
        dec_exc = x
    if msg is None:
        S.cover("decode:raises")
        S.observe("decode", type(dec_exc).__name__)
        S.check("decoder-accepts-what-the-encoder-built", False)
        return
    S.cover("decode:ok")
    S.check("type", msg.type == msgtype)
    S.check("seq", msg.seq == seq)
    S.check("serializer_id", msg.serializer_id == serializer_id)
    S.check("flags-unmanaged-bits", (msg.flags & ~MANAGED) == (flags & ~MANAGED))
    S.check("flags-compressed-bit-cleared-after-decode", (msg.flags & protocol.FLAGS_COMPRESSED) == 0)
    if has_corr:
        S.check("flags-corr-bit", (msg.flags & protocol.FLAGS_CORR_ID) != 0)
        S.check("corr_id", eq(bytes(msg.corr_id), corr))
    else:
        S.check("corr_id-empty", eq(bytes(msg.corr_id), b"\0" * 16))
    S.check("consumed-exactly-this-message", sock.pos == wire_len)
    S.check("payload", payload_equal(S, msg.data, plen))
    S.check("data_size", msg.data_size == plen)
    S.check("annotation-keys", sorted(msg.annotations.keys()) == sorted(annotations.keys()))
    for k in annotations:
        if k in msg.annotations:
            S.check("annotation-value", eq(bytes(msg.annotations[k]), bytes(annotations[k])))
    S.observe("decoded", (msg.type, msg.flags, msg.seq, msg.serializer_id, msg.data_size, sorted(msg.annotations.keys())))
    S.observe("calls", sock.calls)


def payload_equal(S, data, plen):
    if S.symbolic:
        from pysym.sbytes import SymBytes
        return SymBytes.lift(data).covers("payload", 0, plen)
    return bytes(data) == S.stream_piece("payload", 0, plen)


# ------------------------------------------------------------------------------------------------
def ref_decode(S, raw, avail, maxsize):
    """independent reference decoder over the raw bytes: returns ('accept', fields) / ('reject', consumed_max)"""
    def u(a, b):
        return int.from_bytes(raw[a:b], "big")
    if avail < 6:
        return ("reject", avail, "short")
    if not (raw[0] == 0x50 and raw[1] == 0x59 and raw[2] == 0x52 and raw[3] == 0x4f):
        return ("reject", 6, "tag")
    if u(4, 6) != protocol.PROTOCOL_VERSION:
        return ("reject", 6, "version")
    if avail < HEADER:
        return ("reject", avail, "short")
    if u(38, 40) != 0x4dc5:
        return ("reject", HEADER, "magic")
    mtype, ser, flags, seq = raw[6], raw[7], u(8, 10), u(10, 12)
    dsize, asize = u(12, 16), u(16, 20)
    if dsize + asize > maxsize:
        return ("reject", HEADER, "too-large")
    if avail < HEADER + dsize + asize:
        return ("reject", avail, "short")
    dsize = S.concrete(dsize)
    asize = S.concrete(asize)
    # annotation chunks must tile [HEADER, HEADER+asize) exactly
    asize_c = asize
    i = 0
    chunks = []
    base = HEADER
    while i < asize_c:
        if i + 8 > asize_c:
            return ("reject", HEADER + dsize + asize, "chunk-header-overruns")
        ln = u(base + i + 4, base + i + 8)
        for j in range(4):
            if raw[base + i + j] >= 128:
                return ("reject", HEADER + dsize + asize, "chunk-id-not-ascii")
        if i + 8 + ln > asize_c:
            return ("reject", HEADER + dsize + asize, "chunk-data-overruns")
        ln = S.concrete(ln)
        chunks.append((base + i, ln))
        i = i + 8 + ln
    return ("accept", (mtype, ser, flags, seq, dsize, asize, chunks), HEADER + dsize + asize)


def h_arbitrary(S, B):
    N = B["N"]
    raw = S.bytes("raw", N)
    avail = S.choice("avail", list(range(0, N + 1)))
    maxsize = S.int("MAX_MESSAGE_SIZE", 0, N)
    accepted_types = S.choice("accepted_msgtypes", [None, [protocol.MSG_INVOKE, protocol.MSG_PING]])
    config.MAX_MESSAGE_SIZE = maxsize
    sock = WireSock(raw, avail, [])
    conn = socketutil.SocketConnection(sock, keep_open=True)
    msg = None
    exc = None
    try:
        msg = protocol.recv_stub(conn, accepted_types)
    except Exception as x:
        exc = x
    verdict = ref_decode(S, raw, avail, maxsize)
    if verdict[0] == "accept":
        mtype, ser, flags, seq, dsize, asize, chunks = verdict[1]
        type_ok = True
        if accepted_types is not None:
            type_ok = Or(mtype == protocol.MSG_INVOKE, mtype == protocol.MSG_PING)
        compressed = (flags & protocol.FLAGS_COMPRESSED) != 0
        if msg is None:
            S.cover("arbitrary:wellformed-but-refused")
            # only legitimate reasons: message type filtered out, or compressed flag on bytes that are no zlib stream
            S.check("decoder-accepts-wellformed", Or(Not(type_ok), compressed))
            if not S.must(type_ok):
                S.check("type-filter-refuses-before-body", Or(type_ok, sock.pos == HEADER))
            return
        S.cover("arbitrary:accepted")
        S.check("accepted-type-allowed", type_ok)
        S.check("accepted-consumed-exactly", sock.pos == HEADER + dsize + asize)
        S.check("accepted-fields", And(msg.type == mtype, msg.serializer_id == ser, msg.seq == seq,
                                       (msg.flags & ~protocol.FLAGS_COMPRESSED) == (flags & ~protocol.FLAGS_COMPRESSED),
                                       msg.annotations_size == asize))
        S.check("accepted-corr", eq(bytes(msg.corr_id), raw[20:36]))
        if not S.must(compressed):
            S.check("accepted-data", Or(compressed, eq(bytes(msg.data), raw[HEADER + asize:HEADER + asize + dsize])))
        # every chunk the reference found is what the decoder stored (last one wins on duplicate ids)
        for off, ln in chunks:
            ident = raw[off:off + 4].decode("ascii")
            later_dup = False
            for off2, ln2 in chunks:
                if off2 > off:
                    later_dup = Or(later_dup, eq(raw[off2:off2 + 4], raw[off:off + 4]))
            if not S.must(later_dup):
                S.check("accepted-annotation", Or(later_dup, eq(bytes(msg.annotations[ident]), raw[off + 8:off + 8 + ln])))
        S.check("accepted-annotation-count", len(msg.annotations) <= len(chunks))
        S.observe("accepted", (msg.type, msg.seq, msg.data_size, msg.annotations_size, len(msg.annotations)))
        reencode(S, msg, maxsize)
    else:
        S.cover("arbitrary:malformed:" + verdict[2])
        S.check("malformed-is-rejected:" + verdict[2], msg is None)
        S.check("rejected-consumes-no-more-than-declared", sock.pos <= verdict[1])
        if verdict[2] == "too-large":
            S.check("oversized-refused-before-body", sock.pos == HEADER)
            S.check("oversized-raises-ProtocolError", isinstance(exc, errors.ProtocolError))
        if verdict[2] in ("tag", "version"):
            S.check("bad-prefix-refused-after-6-bytes", sock.pos == 6)
        S.observe("rejected", (verdict[2], type(exc).__name__ if exc is not None else None))


def reencode(S, msg, maxsize):
    """whatever the decoder accepts re-encodes to an equivalent message"""
    config.COMPRESSION = False
    config.MAX_MESSAGE_SIZE = 1 << 30      # the size limit is not the subject of the re-encoding claim
    current_context.correlation_id = None
    anns = msg.annotations
    try:
        again = protocol.SendingMessage(msg.type, msg.flags, msg.seq, msg.serializer_id, bytes(msg.data), anns)
    except Exception as x:
        S.check("accepted-message-re-encodes", False)
        return
    conn = socketutil.SocketConnection(WireSock(again.data, len(again.data), []), keep_open=True)
    try:
        m2 = protocol.recv_stub(conn)
    except Exception as x:
        S.check("re-encoded-message-decodes", False)
        return
    S.check("re-encode-equivalent", And(m2.type == msg.type, m2.seq == msg.seq, m2.serializer_id == msg.serializer_id,
                                        (m2.flags & ~MANAGED) == (msg.flags & ~MANAGED),
                                        eq(bytes(m2.data), bytes(msg.data)), len(m2.annotations) == len(msg.annotations)))


class PlainSock:
    """serves concrete bytes, then end-of-stream"""

    def __init__(self, data):
        self.data = data
        self.pos = 0

    def recv(self, n, flags=0):
        chunk = self.data[self.pos:self.pos + n]
        self.pos += len(chunk)
        return chunk

    def getpeername(self):
        return ("10.0.0.1", 1)

    def gettimeout(self):
        return None


def h_compressed_body(S, B):
    """DEFLATE itself is outside the byte model, so this spec is concrete: a real compressed message (built by the real
    sender with the real zlib) whose compressed body is cut short by k bytes -- with the header's length field adjusted, so
    that the framing still tiles -- is not a well-formed message: the decoder must refuse it, never hand out a shorter
    payload.  The complete message is decoded to the payload that was sent."""
    config.COMPRESSION = True
    config.MAX_MESSAGE_SIZE = S.choice("MAX_MESSAGE_SIZE", [1 << 20, 4000])
    payload = bytes(range(256)) * S.choice("payload_blocks", [2, 12])
    msg = protocol.SendingMessage(protocol.MSG_RESULT, 0, 7, 3, payload)
    wire = bytes(msg.data)
    body = wire[HEADER:]
    S.check("sender-compressed-the-payload", (msg.flags & protocol.FLAGS_COMPRESSED) != 0 and len(body) < len(payload))
    cut = S.choice("bytes_cut_from_the_compressed_body", [0, 1, 2, 5, len(body) // 2, len(body) - 1])
    S.assume(cut < len(body), "the cut leaves at least one byte of the body")
    short = body[:len(body) - cut]
    fields = list(struct.unpack(protocol._header_format, wire[:HEADER]))
    fields[6] = len(short)                      # data_size
    data = struct.pack(protocol._header_format, *fields) + short
    conn = socketutil.SocketConnection(PlainSock(data))
    got = err = None
    try:
        got = protocol.recv_stub(conn)
    except Exception as x:
        err = x
    S.cover("compressed:" + ("complete" if cut == 0 else "cut"))
    if cut == 0:
        S.check("complete-compressed-message-decodes-to-the-payload", err is None and bytes(got.data) == payload)
    else:
        S.check("truncated-compressed-body-is-refused", got is None and err is not None)
    S.observe("outcome", type(err).__name__ if err is not None else len(got.data))


def h_interrupted_encode(S, B):
    """the sender is used by every thread of a process: while one thread builds message A it can be interrupted at any
    statement, and another thread builds a complete message B in between (the whole of B scheduled at that point).  Each
    message still decodes to its own fields: building a message uses no state shared between messages."""
    from pysym.api import statement_lines
    config.COMPRESSION = False
    lines = statement_lines(protocol.SendingMessage.__init__)
    at = S.choice("A_is_interrupted_before_line", lines)
    seqA = S.int("A.seq", 0, 65535)
    seqB = S.int("B.seq", 0, 65535)
    typA = S.int("A.type", 0, 255)
    typB = S.int("B.type", 0, 255)
    annA = {"AAAA": b"1"} if S.flag("A_has_annotation") else None
    built = {}

    def build_B():
        built["B"] = protocol.SendingMessage(typB, 0, seqB, 4, b"payload-of-B-which-is-longer", annotations={"BBBB": b"22", "CCCC": b""})
    with S.preempting(protocol.SendingMessage.__init__, at, build_B):
        msgA = protocol.SendingMessage(typA, 0, seqA, 2, b"payload-A", annotations=annA)
    S.cover("interrupted" if "B" in built else "not-reached")
    for name, msg, typ, seq, ser, payload, nann in (("A", msgA, typA, seqA, 2, b"payload-A", 1 if annA else 0),) + \
            ((("B", built["B"], typB, seqB, 4, b"payload-of-B-which-is-longer", 2),) if "B" in built else ()):
        conn = socketutil.SocketConnection(PlainSock(bytes(msg.data) if not S.symbolic else msg.data))
        got = err = None
        try:
            got = protocol.recv_stub(conn)
        except Exception as x:
            err = x
        S.check("message-%s-decodes" % name, err is None)
        if got is not None:
            S.check("message-%s-keeps-its-own-header-fields" % name, And(got.type == typ, got.seq == seq, got.serializer_id == ser))
            S.check("message-%s-keeps-its-own-payload-and-annotations" % name, eq(bytes(got.data) if not S.symbolic else got.data, payload) and len(got.annotations) == nann)
    S.observe("reached", "B" in built)


def h_independent(S, B):
    """two messages decoded one after the other: what the consumer of the first does with its annotations (the daemon hands
    the dict to the call context, user code adds to it) does not show in the second"""
    config.COMPRESSION = False
    ann1 = {"AAAA": b"1"} if S.flag("first_has_annotation") else None
    ann2 = {"BBBB": b"2"} if S.flag("second_has_annotation") else None
    seq1 = S.int("first.seq", 0, 65535)
    seq2 = S.int("second.seq", 0, 65535)
    w1 = protocol.SendingMessage(protocol.MSG_INVOKE, 0, seq1, 3, b"one", annotations=ann1).data
    w2 = protocol.SendingMessage(protocol.MSG_INVOKE, 0, seq2, 3, b"two", annotations=ann2).data
    m1 = protocol.recv_stub(socketutil.SocketConnection(PlainSock(w1 if S.symbolic else bytes(w1))))
    m1.annotations["XTRA"] = b"added by the consumer of the first message"
    m2 = protocol.recv_stub(socketutil.SocketConnection(PlainSock(w2 if S.symbolic else bytes(w2))))
    S.cover("two-decoded")
    S.check("second-message-has-exactly-its-own-annotations", sorted(m2.annotations.keys()) == (["BBBB"] if ann2 else []))
    S.check("decoded-messages-share-no-annotation-dict", m1.annotations is not m2.annotations)
    S.check("second-message-keeps-its-own-fields", And(m2.seq == seq2, m1.seq == seq1))
    m3 = protocol.ReceivingMessage(w2[:HEADER] if S.symbolic else bytes(w2[:HEADER]))
    S.check("header-only-message-starts-without-annotations-of-others", len(m3.annotations) == 0 and m3.annotations is not m1.annotations)
    S.observe("anns", sorted(m2.annotations.keys()))


def _reset():
    from pysym.runner import default_reset
    default_reset()


SYMDICT_FUNCTIONS = ["ReceivingMessage.*"]      # every method of the decoder: its empty dict displays may get symbolic keys

SPECS = [
    Spec("roundtrip", h_roundtrip,
         {"quick": {"PAYLOAD": 200, "ANN": 1, "ANNLENS": [0, 2], "KEYS": 4, "KINDS": 2, "CUTS": 1},
          "thorough": {"PAYLOAD": 200, "ANN": 1, "ANNLENS": [0, 2], "KEYS": 6, "KINDS": 2, "CUTS": 1}},
         covers=["encode:ok", "decode:ok", "encode:raises:ProtocolError", "encode:raises:error", "check:payload",
                 "check:annotation-value", "check:corr_id"],
         native_patch=env.native_env_zlib, reset=_reset,
         desc="SendingMessage -> bytes -> recv_stub over SocketConnection/receive_data with solver-chosen fragmentation; all header fields, payload length 0..200 (opaque), compression on/off, MAX_MESSAGE_SIZE symbolic"),
    Spec("arbitrary_bytes", h_arbitrary,
         {"quick": {"N": 40 + 14}, "thorough": {"N": 40 + 28}},
         covers=["arbitrary:accepted", "arbitrary:malformed:tag", "arbitrary:malformed:too-large",
                 "arbitrary:malformed:chunk-data-overruns", "arbitrary:malformed:short", "check:accepted-annotation",
                 "check:re-encode-equivalent"],
         native_patch=env.native_env_zlib, reset=_reset,
         desc="recv_stub on N arbitrary symbolic bytes (every prefix length 0..N available), differential against an independent reference decoder"),
    Spec("interrupted_encode", h_interrupted_encode, {"quick": {}, "thorough": {}},
         covers=["interrupted", "check:message-A-keeps-its-own-header-fields", "check:message-B-keeps-its-own-header-fields"],
         native_patch=env.native_env, reset=_reset,
         desc="message A is being built and is interrupted before any one statement of SendingMessage.__init__ while a complete message B is built (another thread's whole encode scheduled at that point); symbolic types and sequence numbers; both messages decode to their own fields"),
    Spec("independent_messages", h_independent, {"quick": {}, "thorough": {}},
         covers=["two-decoded", "check:second-message-has-exactly-its-own-annotations"], native_patch=env.native_env, reset=_reset,
         desc="two messages (with/without annotations, symbolic sequence numbers) decoded one after the other; the consumer adds an annotation to the first decoded message; the second shows exactly its own annotations and shares no dict with the first"),
    Spec("compressed_body", h_compressed_body, {"quick": {}, "thorough": {}},
         covers=["compressed:complete", "compressed:cut", "check:truncated-compressed-body-is-refused"],
         native_patch=env.native_env, reset=_reset,
         desc="(concrete: DEFLATE is outside the byte model) a real compressed message with 0/1/2/5/half/all-but-one bytes cut from its compressed body and the length field adjusted: refused unless complete; two payload sizes, two MAX_MESSAGE_SIZE values"),
]
