"""C14 -- the name server is a faithful map, identical on both storage back-ends.

Real code executed symbolically: nameserver.NameServer (register, remove by name/prefix/regex, set_metadata, lookup,
list, yplookup, count), MemoryStorage and SqlStorage (every method; sqlite3 itself is the table model of
harness/sqlmodel.py in symbolic mode and the REAL sqlite3 on a temporary file in the native replay).
One operation from every pre-state over a pool of stored names (incl. case pairs, SQL wildcards, the empty string and
the name server's own entry); the operation's name / prefix argument is a symbolic string; the index of a failing
sqlite statement is symbolic.  Differential: memory back-end, sqlite back-end and a reference dict."""
import os
import re
import sqlite3
import tempfile

from Pyro5 import nameserver, errors, core, config
from pysym.runner import Spec
from pysym.api import And, Or, Not, Implies, eq
from pysym import env
from harness import sqlmodel

NS_NAME = core.NAMESERVER_NAME
NO_NUL = [(1, 0xD7FF), (0xE000, 0x10FFFF)]      # every code point except NUL (sqlite treats text as NUL-terminated in LIKE)
URIS = ["PYRO:obj1@host:1", "PYRO:obj2@host:2", "PYRO:Pyro.NameServer@host:9090"]
TAGSETS = [(), ("t1",), ("t1", "t2")]
REGEXES = ["a.", "ab", "[", ".*", "A", "ab?", "aB|zz", "a{0}b", "(?:x)?a"]
OPS = ["register", "remove_name", "remove_prefix", "remove_regex", "set_metadata", "lookup", "lookup_meta", "list_all",
       "list_prefix", "list_regex", "yp_all", "yp_any", "count"]


class FailingCursor:
    def __init__(self, cur, owner):
        self._cur = cur
        self._owner = owner

    def execute(self, sql, params=()):
        self._owner._tick()
        self._cur.execute(sql, params)
        return self

    def executemany(self, sql, seq):
        for params in seq:
            self.execute(sql, params)
        return self

    def fetchone(self):
        return self._cur.fetchone()

    def fetchall(self):
        return self._cur.fetchall()

    def __iter__(self):
        return iter(self._cur)

    @property
    def lastrowid(self):
        return self._cur.lastrowid

    def close(self):
        self._cur.close()


class FailingConn:
    """native replay: the real sqlite3 connection, with the k-th execute() raising"""
    state = {"n": 0, "fail_at": None, "real_connect": sqlite3.connect}

    def __init__(self, conn):
        self._conn = conn

    def _tick(self):
        i = FailingConn.state["n"]
        FailingConn.state["n"] += 1
        if FailingConn.state["fail_at"] is not None and i == FailingConn.state["fail_at"]:
            raise sqlite3.OperationalError("injected failure at statement %d" % i)

    def cursor(self):
        return FailingCursor(self._conn.cursor(), self)

    def execute(self, sql, params=()):
        self._tick()
        return self._conn.execute(sql, params)

    def executemany(self, sql, seq):
        return self.cursor().executemany(sql, seq)

    def commit(self):
        self._conn.commit()

    def rollback(self):
        self._conn.rollback()

    def close(self):
        self._conn.close()

    def __enter__(self):
        self._conn.__enter__()
        return self

    def __exit__(self, et, ev, tb):
        return self._conn.__exit__(et, ev, tb)


def native_connect(dbfile, *a, **kw):
    return FailingConn(FailingConn.state["real_connect"](dbfile, *a, **kw))


def make_sql(S, entries):
    """a SqlStorage holding `entries` (list of (name, uri, tags))"""
    if S.symbolic:
        db = sqlmodel.Database()
        sqlmodel.DB[0] = db
        for i, (n, u, tags) in enumerate(entries):
            db.names.append((i + 1, n, u))
            db.seen.append(n)
            for t in tags:
                db.metadata.append((i + 1, t))
        st = nameserver.SqlStorage("model")       # the real constructor, on the modelled database (the schema exists)
        return st, None
    fd, path = tempfile.mkstemp(prefix="c14-", suffix=".sqlite")
    os.close(fd)
    os.unlink(path)
    FailingConn.state["n"] = 0
    FailingConn.state["fail_at"] = None
    st = nameserver.SqlStorage(path)
    for n, u, tags in entries:
        st[n] = (u, set(tags))
    FailingConn.state["n"] = 0
    return st, path


def sql_contents(S, st):
    if S.symbolic:
        db = sqlmodel.DB[0]
        out = {}
        for rid, n, u in db.names:
            out[n] = (u, frozenset(t for oid, t in db.metadata if oid == rid))
        return out
    FailingConn.state["fail_at"] = None
    return {n: (u, frozenset(m)) for n, (u, m) in st.everything(return_metadata=True).items()}


def orphan_tag_rows(S, st, path):
    """tag rows whose entry is gone (they would be inherited by the next entry that reuses the row id)"""
    if S.symbolic:
        db = sqlmodel.DB[0]
        ids = [r[0] for r in db.names]
        return len([m for m in db.metadata if m[0] not in ids])
    con = FailingConn.state["real_connect"](path)
    try:
        return con.execute("SELECT COUNT(*) FROM pyro_metadata WHERE object NOT IN (SELECT id FROM pyro_names)").fetchone()[0]
    finally:
        con.close()


def ref_apply(S, ref, op, a):
    """reference map semantics, written from the statement"""
    name, prefix, regex, uri, safe, tags = a["name"], a["prefix"], a["regex"], a["uri"], a["safe"], a["tags"]
    if op == "register":
        if safe and name in ref:
            raise errors.NamingError("already")
        ref[name] = (uri, frozenset(tags))
        return None
    if op == "remove_name":
        if name and name in ref and not eq_str(name, NS_NAME):
            del_key(ref, name)
            return 1
        return 0
    if op in ("remove_prefix", "remove_regex", "list_prefix", "list_regex", "list_all"):
        if op.endswith("regex"):
            try:
                rx = re.compile(regex)
            except re.error:
                raise errors.NamingError("invalid regex")
            hits = [n for n in ref if rx.match(n)]
        elif op.endswith("prefix"):
            hits = [n for n in ref if n.startswith(prefix)]
        else:
            hits = list(ref)
        if op.startswith("remove"):
            hits = [n for n in hits if n != NS_NAME]
            for n in hits:
                del ref[n]
            return len(hits)
        return {n: ref[n][0] for n in hits}
    if op == "set_metadata":
        if name not in ref:
            raise errors.NamingError("unknown")
        u = get_key(ref, name)[0]
        set_key(ref, name, (u, frozenset(tags)))
        return None
    if op in ("lookup", "lookup_meta"):
        if name not in ref:
            raise errors.NamingError("unknown")
        u, m = get_key(ref, name)
        return (core.URI(u), set(m)) if op == "lookup_meta" else core.URI(u)
    if op == "yp_all":
        return {n: (u, set(m)) for n, (u, m) in ref.items() if tags and set(tags) <= m}
    if op == "yp_any":
        return {n: (u, set(m)) for n, (u, m) in ref.items() if set(tags) & m}
    return len(ref)


def eq_str(a, b):
    return eq(a, b)


def get_key(d, k):
    return d[k]


def set_key(d, k, v):
    for kk in list(d):
        if eq(kk, k):
            d[kk] = v
            return
    raise KeyError(k)


def del_key(d, k):
    for kk in list(d):
        if eq(kk, k):
            del d[kk]
            return
    raise KeyError(k)


def run_op(ns, op, a):
    name, prefix, regex, uri, safe, tags = a["name"], a["prefix"], a["regex"], a["uri"], a["safe"], a["tags"]
    if op == "register":
        return ns.register(name, uri, safe=safe, metadata=list(tags))
    if op == "remove_name":
        return ns.remove(name=name)
    if op == "remove_prefix":
        return ns.remove(prefix=prefix)
    if op == "remove_regex":
        return ns.remove(regex=regex)
    if op == "set_metadata":
        return ns.set_metadata(name, list(tags))
    if op == "lookup":
        return ns.lookup(name)
    if op == "lookup_meta":
        return ns.lookup(name, return_metadata=True)
    if op == "list_all":
        return ns.list()
    if op == "list_prefix":
        return ns.list(prefix=prefix)
    if op == "list_regex":
        return ns.list(regex=regex)
    if op == "yp_all":
        return ns.yplookup(meta_all=list(tags))
    if op == "yp_any":
        return ns.yplookup(meta_any=list(tags))
    return ns.count()


def outcome(f):
    try:
        return ("value", f())
    except errors.NamingError as x:
        return ("NamingError", None)
    except Exception as x:
        return ("error:" + type(x).__name__, None)


def canon(v):
    """comparable form of an operation result"""
    if isinstance(v, dict):
        return sorted((k, canon(x)) for k, x in v.items())
    if isinstance(v, (set, frozenset)):
        return sorted(v)
    if isinstance(v, tuple):
        return tuple(canon(x) for x in v)
    if isinstance(v, core.URI):
        return str(v)
    return v


def h_step(S, B):
    pool = B["POOL"]
    entries = [(NS_NAME, URIS[2], ())]
    for i, n in enumerate(pool):
        if S.flag("present%d" % i):
            entries.append((n, URIS[i % 2], S.choice("tags%d" % i, TAGSETS)))
    op = S.choice("op", B["OPS"])
    a = {"name": None, "prefix": None, "regex": None, "uri": URIS[0], "safe": False, "tags": ()}
    if op == "register":
        a["name"] = S.choice("reg_name", pool + ["zz", NS_NAME])
        a["uri"] = S.choice("reg_uri", URIS[:2])
        a["safe"] = S.flag("safe")
        a["tags"] = S.choice("reg_tags", TAGSETS)
    elif op in ("remove_name", "set_metadata", "lookup", "lookup_meta"):
        a["name"] = S.str("name", B["L"], 0, NO_NUL)
        a["tags"] = S.choice("new_tags", TAGSETS) if op == "set_metadata" else ()
    elif op in ("remove_prefix", "list_prefix"):
        a["prefix"] = S.str("prefix", B["LP"], 1, NO_NUL)
    elif op in ("remove_regex", "list_regex"):
        a["regex"] = S.choice("regex", REGEXES)
    elif op in ("yp_all", "yp_any"):
        a["tags"] = S.choice("query_tags", TAGSETS)
    fail_at = S.choice("failing_sqlite_statement", [None] + list(range(B["FAIL"]))) if op in B["MUTATING"] else None
    # ---- the three implementations ---------------------------------------------------------------------
    ref = {n: (u, frozenset(t)) for n, u, t in entries}
    pre = dict(ref)
    mem = nameserver.MemoryStorage()
    for n, u, t in entries:
        mem[n] = (u, set(t))
    ns_mem = nameserver.NameServer(mem)
    sql, path = make_sql(S, entries)
    ns_sql = nameserver.NameServer(sql)
    try:
        r_ref = outcome(lambda: ref_apply(S, ref, op, a))
        r_mem = outcome(lambda: run_op(ns_mem, op, a))
        if S.symbolic:
            sqlmodel.DB[0].executes = 0
            sqlmodel.DB[0].fail_at = fail_at
        else:
            FailingConn.state["n"] = 0
            FailingConn.state["fail_at"] = fail_at
        r_sql = outcome(lambda: run_op(ns_sql, op, a))
        S.cover("op:" + op)
        like_sensitive = False
        if a["prefix"] is not None:
            for i in range(B["LP"]):
                if i < len(a["prefix"]):
                    ch = a["prefix"][i]
                    like_sensitive = Or(like_sensitive, eq(ch, "%"), eq(ch, "_"), is_ascii_letter(S, ch))
        S.known("C14-sqlite-prefix-queries-use-LIKE-wildcards-and-fold-ascii-case", like_sensitive,
                checks=["sqlite-backend-result-equals-the-memory-backend", "sqlite-backend-state-equals-the-reference-map",
                        "unaffected-operation-behaves-normally"])
        mem_contents = {n: (u, frozenset(m)) for n, (u, m) in mem.items()}
        S.check("memory-backend-result-equals-the-reference-map", r_mem[0] == r_ref[0] and canon(r_mem[1]) == canon(r_ref[1]))
        S.check("memory-backend-state-equals-the-reference-map", mem_contents == ref)
        S.check("own-entry-survives", NS_NAME in mem_contents)
        after_sql = sql_contents(S, sql)
        if r_sql[0] != r_mem[0]:
            S.note("outcomes differ: sql=%s mem=%s op=%s" % (r_sql[0], r_mem[0], op))
        if fail_at is None:
            S.check("sqlite-backend-result-equals-the-memory-backend", r_sql[0] == r_mem[0] and canon(r_sql[1]) == canon(r_mem[1]))
            S.check("sqlite-backend-state-equals-the-reference-map", after_sql == ref)
        else:
            S.cover("sqlite-statement-failed" if r_sql[0] != "value" else "sqlite-statement-not-reached")
            if r_sql[0] == "value":
                S.check("unaffected-operation-behaves-normally", canon(r_sql[1]) == canon(r_mem[1]) and after_sql == ref)
            else:
                S.check("failed-operation-reports-NamingError", r_sql[0] == "NamingError")
                S.check("failed-operation-has-no-effect", after_sql == pre)
        # a later registration sees only its own tags (sqlite reuses the row id of a removed entry, so tag rows that
        # were left behind would be inherited); checked on the observable contents of both back-ends
        if op in B["MUTATING"]:
            if not S.symbolic:
                FailingConn.state["fail_at"] = None
            else:
                sqlmodel.DB[0].fail_at = None
            f_mem = outcome(lambda: ns_mem.register("zz.later", "PYRO:later@h:3", metadata=[]))
            f_sql = outcome(lambda: ns_sql.register("zz.later", "PYRO:later@h:3", metadata=[]))
            later_mem = {n: (u, frozenset(m)) for n, (u, m) in mem.items()}
            later_sql = sql_contents(S, sql)
            S.known("C14-sqlite-prefix-queries-use-LIKE-wildcards-and-fold-ascii-case", like_sensitive,
                    checks=["later-registration-has-exactly-its-own-tags"])
            S.check("later-registration-has-exactly-its-own-tags", f_mem[0] == "value" and f_sql[0] == "value" and
                    later_sql.get("zz.later") == later_mem.get("zz.later") and
                    (fail_at is not None or later_sql == later_mem))
        S.observe("results", (r_ref[0], r_mem[0], r_sql[0], canon(r_mem[1]) if r_mem[0] == "value" else None))
        S.observe("sql", sorted(after_sql.keys()))
    finally:
        if path is not None:
            try:
                os.unlink(path)
            except OSError:
                pass


HIST_OPS = ["register", "remove_name", "remove_prefix", "remove_regex", "set_metadata", "lookup_meta", "list_prefix", "count"]


def h_history(S, B):
    """a short history of operations with concrete arguments on both back-ends and the reference map: every answer and the
    state after every step agree, and at the end the sqlite file, reopened by a fresh SqlStorage, holds the same map (so
    state kept outside the database -- a cache, say -- cannot stand in for it)"""
    pool = B["POOL"]
    entries = [(NS_NAME, URIS[2], ())]
    for i, n in enumerate(pool):
        if S.flag("present%d" % i):
            entries.append((n, URIS[i % 2], ("t1",)))
    ref = {n: (u, frozenset(t)) for n, u, t in entries}
    mem = nameserver.MemoryStorage()
    for n, u, t in entries:
        mem[n] = (u, set(t))
    ns_mem = nameserver.NameServer(mem)
    sql, path = make_sql(S, entries)
    ns_sql = nameserver.NameServer(sql)
    if S.symbolic:
        sqlmodel.DB[0].executes = 0
        sqlmodel.DB[0].fail_at = None
    try:
        for step in range(B["STEPS"]):
            op = S.choice("op%d" % step, B["OPS"])
            a = {"name": None, "prefix": "a", "regex": "a.", "uri": URIS[0], "safe": False, "tags": ()}
            if op in ("register", "remove_name", "set_metadata", "lookup_meta", "lookup"):
                a["name"] = S.choice("name%d" % step, pool)
            if op in ("yp_any", "yp_all"):
                a["tags"] = ("t1",)
            if op == "register":
                a["uri"] = URIS[1]
                a["tags"] = S.choice("tags%d" % step, [(), ("t2",)])
            if op == "set_metadata":
                a["tags"] = S.choice("tags%d" % step, [(), ("t2",)])
            r_ref = outcome(lambda: ref_apply(S, ref, op, a))
            r_mem = outcome(lambda: run_op(ns_mem, op, a))
            r_sql = outcome(lambda: run_op(ns_sql, op, a))
            S.cover("hist:" + op)
            S.check("history: memory-backend-answers-like-the-map", r_mem[0] == r_ref[0] and canon(r_mem[1]) == canon(r_ref[1]))
            S.check("history: sqlite-backend-answers-like-the-map", r_sql[0] == r_ref[0] and canon(r_sql[1]) == canon(r_ref[1]))
            S.check("history: memory-backend-holds-the-map", {n: (u, frozenset(m)) for n, (u, m) in mem.items()} == ref)
            S.check("history: sqlite-backend-holds-the-map", sql_contents(S, sql) == ref)
        # reopen the database
        if S.symbolic:
            again = nameserver.SqlStorage("model")
        else:
            again = nameserver.SqlStorage(path)
        reopened = {n: (u, frozenset(m)) for n, (u, m) in again.everything(return_metadata=True).items()}
        S.check("history: reopened-sqlite-database-holds-the-map", reopened == ref)
        # and the live server still answers from that map for every name of the pool
        for n in pool:
            r1 = outcome(lambda: ns_sql.lookup(n, return_metadata=True))
            r0 = outcome(lambda: ref_apply(S, ref, "lookup_meta", {"name": n, "prefix": None, "regex": None, "uri": None, "safe": False, "tags": ()}))
            S.check("history: final-lookups-answer-from-the-map", r1[0] == r0[0] and canon(r1[1]) == canon(r0[1]))
        S.observe("final", sorted(ref.keys()))
    finally:
        if path is not None:
            try:
                os.unlink(path)
            except OSError:
                pass


def is_ascii_letter(S, ch):
    if S.symbolic:
        from pysym.strings import StrVec
        from pysym.values import mkbool
        import z3
        c = StrVec.lift(ch).chars[0]
        return mkbool(z3.Or(z3.And(c >= 65, c <= 90), z3.And(c >= 97, c <= 122)))
    return ch.isascii() and ch.isalpha()


def _reset():
    from pysym.runner import default_reset
    default_reset()
    FailingConn.state["n"] = 0
    FailingConn.state["fail_at"] = None


MUTATING = ["register", "remove_name", "remove_prefix", "remove_regex", "set_metadata"]
INTERPRET_MODULES = ["harness.sqlmodel"]
STUBS = [(sqlite3, "connect", sqlmodel.connect, "symbolic"), (sqlite3, "connect", native_connect, "native")]

SPECS = [
    Spec("map_step", h_step,
         {"quick": {"POOL": ["ab", "aB"], "L": 3, "LP": 2, "OPS": OPS, "FAIL": 6, "MUTATING": MUTATING},
          "thorough": {"POOL": ["ab", "aB", "a_", ""], "L": 4, "LP": 3, "OPS": OPS, "FAIL": 9, "MUTATING": MUTATING}},
         covers=["op:" + o for o in OPS] + ["sqlite-statement-failed", "check:failed-operation-has-no-effect",
                                            "check:sqlite-backend-state-equals-the-reference-map"],
         native_patch=env.native_env, reset=_reset,
         desc="one name server operation (13 kinds) from every pre-state over the stored-name pool (each name present or not, three tag sets) plus the server's own entry; symbolic name (any code points) / prefix argument; regexes and tag queries from lists; the index of a failing sqlite statement is a choice; memory back-end, sqlite back-end and reference dict compared"),
    Spec("history", h_history,
         {"quick": {"POOL": ["ab", "aB"], "STEPS": 3, "OPS": HIST_OPS}, "thorough": {"POOL": ["ab", "aB"], "STEPS": 3, "OPS": HIST_OPS + ["list_regex", "yp_any", "lookup"]}},
         covers=["hist:" + o for o in HIST_OPS] + ["check:history: reopened-sqlite-database-holds-the-map"],
         native_patch=env.native_env, reset=_reset,
         desc="every history of 3 operations (8 kinds, 8 (thorough 11) kinds, names from the pool, two tag sets) from every pre-state over the pool: answers and contents of memory back-end, sqlite back-end and reference map agree after every step, the reopened sqlite database holds the map, final lookups answer from it"),
]
