"""C16 -- daemon registry: an id reaches exactly its object, for as long as registered.

Real code executed symbolically: server.Daemon.register/unregister/uriFor/proxyFor, _pyro_obj_to_auto_proxy,
_unpack_weakref, DaemonObject.registered, the object lookup of handleRequest.  The registry dict is replaced by an
association list with solver-decided key equality, so that the id argument of the operation and the id a request is
addressed to are symbolic strings; one operation from every pre-state over a pool of objects and a class, compared
with a reference dict."""
import gc
import weakref

from Pyro5 import protocol, errors, server, config, client, core, serializers
from Pyro5.server import expose
from pysym.runner import Spec
from pysym.api import And, Or, Not, Implies, eq
from pysym import env
from harness import rig, codecs

LOG = []


@expose
class K:
    def __init__(self, name):
        self.name = name

    def who(self):
        LOG.append(self.name)
        return self.name


@expose
class KEmpty(K):
    """a registered container-like object that happens to be empty: falsy, but alive"""

    def __len__(self):
        return 0


@expose
class KSet(set):
    """an exposed class derived from a builtin container type"""

    def __init__(self, name):
        set.__init__(self)
        self.name = name

    def who(self):
        LOG.append(self.name)
        return self.name


@expose
class KC:
    def who(self):
        LOG.append("instance-of-KC")
        return "kc"


ALPHA = [(0x61, 0x63), (0x2E, 0x2E)]


def _is_proxy_dict(v):
    return isinstance(v, client.Proxy) or (isinstance(v, dict) and v.get("__class__") == "Pyro5.client.Proxy")


def attempt_value(f):
    try:
        return f()
    except Exception as x:
        return x


def symdict(S, d):
    if S.symbolic:
        from pysym.containers import SymDict
        return SymDict(list(d.items()))
    return d


def lookup(S, registry, key):
    """reference lookup with a possibly symbolic key: list of (condition, value)"""
    out = []
    for k, v in registry:
        out.append((eq(key, k), v))
    return out


def h_registry_step(S, B):
    rig.reset(S)
    del LOG[:]
    daemon = rig.make_daemon()
    dobj = daemon.objectsById[core.DAEMON_NAME]
    O1, O2, O3, O4 = KEmpty("O1"), KSet("O2"), K("O3"), KEmpty("O4")
    pool = {"O1": O1, "O2": O2, "O3": O3, "O4": O4, "KC": KC}
    # O1 may also have been moved: registered as "a" and later, forced, as "c" as well (it then carries the id "c")
    st1 = S.choice("O1.state", ["unregistered", "strong", "weak", "strong-under-two-ids"])
    st2 = S.choice("O2.state", ["unregistered", "strong"])
    st4 = S.choice("O4.state", ["unregistered", "strong"])       # a second object of O1's class
    reference = [(core.DAEMON_NAME, dobj)]
    if st1 != "unregistered":
        daemon.register(O1, "a", weak=(st1 == "weak"))
        reference.append(("a", O1))
        if st1 == "strong-under-two-ids":
            daemon.register(O1, "c", force=True)
            reference.append(("c", O1))
    if st2 != "unregistered":
        daemon.register(O2, "b")
        reference.append(("b", O2))
    if st4 != "unregistered":
        daemon.register(O4, "d")
        reference.append(("d", O4))
    daemon.objectsById = symdict(S, daemon.objectsById)
    op = S.choice("op", ["register", "unregister-object", "unregister-id", "collect-O1", "none"])
    exc = None
    result = None
    S.cover("op:" + op)
    ALIAS_CHECKS = ["reported-ids-count", "id-reaches-its-object", "unknown-id-is-unknown", "registered-id-is-reported",
                    "registered-object-travels-as-proxy", "registered-object-arrives-as-proxy-through-the-serializer",
                    "proxy-names-an-id-of-the-object", "arrived-proxy-names-an-id-of-the-object", "unregistered-object-travels-by-value",
                    "auto-proxy-hook-installed-for-the-type"]
    if op == "register":
        tname = S.choice("target", ["O1", "O2", "O3", "KC"])
        target = pool[tname]
        idkind = S.choice("id", ["generated", "given"])
        oid = None if idkind == "generated" else S.str("given_id", B["L"], 1, ALPHA + [(0x50, 0x50), (0x79, 0x79), (0x72, 0x72), (0x6F, 0x6F), (0x44, 0x44), (0x65, 0x65), (0x6D, 0x6D), (0x6E, 0x6E)])
        force = S.flag("force")
        weak = S.flag("weak") if idkind == "generated" else False    # weak registration is explored with generated ids
        try:
            result = daemon.register(target, oid, force, weak)
        except Exception as x:
            exc = x
        if st1 == "strong-under-two-ids" and oid is not None:
            # taking over (forced) the id that the twice-registered object carries removes its marks although it is still
            # registered under its other id
            S.known("C16-object-registered-under-several-ids-is-only-known-by-the-id-it-carries",
                    And(force, eq(oid, "c"), tname != "O1"), checks=ALIAS_CHECKS)
        already = any(v is target for k, v in reference)
        id_taken = False if oid is None else Or(*[eq(oid, k) for k, v in reference])
        id_of_other = False if oid is None else Or(*[eq(oid, k) for k, v in reference if v is not target and k != core.DAEMON_NAME])
        S.known("C16-weakly-registered-object-can-be-registered-again-without-force", And(tname == "O1", st1 == "weak", not force),
                checks=["duplicate-registration-is-refused-unless-forced"])
        S.known("C16-forced-replacement-leaves-the-pyro-marks-on-the-replaced-object", And(force, id_of_other),
                checks=["unregistered-object-travels-by-value"])
        if tname == "KC" and weak:
            S.check("weak-class-registration-refused", isinstance(exc, TypeError))
        elif not force:
            refuse = Or(already, id_taken)
            if exc is not None:
                S.check("registration-refused-only-for-duplicates", And(isinstance(exc, errors.DaemonError), refuse))
            else:
                S.check("duplicate-registration-is-refused-unless-forced", Not(refuse))
        else:
            S.check("forced-registration-succeeds", exc is None)
        if exc is None:
            new_id = target._pyroId
            S.check("register-returns-uri-of-the-id", eq(result.object, new_id))
            if oid is not None:
                S.check("object-registered-under-the-given-id", eq(new_id, oid))
            newref = []
            for k, v in reference:
                if eq(k, new_id):
                    continue        # a forced registration replaces the entry under that id
                newref.append((k, v))
            reference = newref
            reference.append((new_id, target))
            if st1 == "weak" and tname != "O1" and not any(v is O1 for k, v in reference) and S.flag("then_the_replaced_weak_object_is_collected"):
                # the weakly registered object that was just replaced under its id goes away: nothing else changes
                S.cover("replaced-weak-object-collected")
                O1 = None
                pool["O1"] = None
                gc.collect()
    elif op == "unregister-object":
        tname = S.choice("target", ["O1", "O2", "O3", "O4", "DaemonObject"])
        target = dobj if tname == "DaemonObject" else pool[tname]
        try:
            daemon.unregister(target)
        except Exception as x:
            exc = x
        was = [k for k, v in reference if v is target]
        S.known("C16-object-registered-under-several-ids-is-only-known-by-the-id-it-carries",
                And(st1 == "strong-under-two-ids", tname == "O1"), checks=ALIAS_CHECKS)
        if tname == "DaemonObject":
            S.check("daemon-object-cannot-be-unregistered", exc is None)
        elif not was:
            S.check("unregistering-an-unregistered-object-is-refused", isinstance(exc, errors.DaemonError))
        else:
            S.check("unregister-succeeds", exc is None)
            reference = [(k, v) for k, v in reference if v is not target]
    elif op == "unregister-id":
        oid = S.str("unregister_id", B["L2"], 0, None)
        try:
            daemon.unregister(oid)
        except Exception as x:
            exc = x
        S.check("unregister-by-id-never-fails", exc is None)
        keep = []
        for k, v in reference:
            if k == core.DAEMON_NAME:
                keep.append((k, v))
            elif S.must(eq(oid, k)):
                pass
            elif S.must(Not(eq(oid, k))):
                keep.append((k, v))
            else:
                raise RuntimeError("harness: undecided id comparison")
        removed = [v for k, v in reference if (k, v) not in keep]
        reference = keep
        # (an object that is still registered under another id keeps carrying the id that was just removed: same root cause)
        S.known("C16-unregister-by-id-leaves-the-pyro-marks-on-the-object", len(removed) > 0,
                checks=["unregistered-object-travels-by-value", "registered-object-travels-as-proxy",
                        "registered-object-arrives-as-proxy-through-the-serializer", "proxy-names-an-id-of-the-object",
                        "arrived-proxy-names-an-id-of-the-object", "auto-proxy-hook-installed-for-the-type"])
    elif op == "collect-O1":
        O1 = None
        pool["O1"] = None
        gc.collect()
        if st1 == "weak":
            reference = [(k, v) for k, v in reference if k != "a"]
    # ---- oracle: the registry equals the reference -------------------------------------------
    reported = dobj.registered()
    S.check("reported-ids-count", len(reported) == len(reference))
    for k, v in reference:
        S.check("registered-id-is-reported", Or(*[eq(k, r) for r in reported]))
    # a request addressed to an arbitrary id reaches exactly the object registered under it
    q = S.str("request_id", B["L2"], 0, None)
    found = server._unpack_weakref(daemon.objectsById.get(q))
    expect = lookup(S, reference, q)
    if found is None:
        S.check("unknown-id-is-unknown", Not(Or(*[c for c, v in expect])))
    else:
        S.check("id-reaches-its-object", Or(*[c for c, v in expect if v is found]))
    S.check("daemon-object-still-reachable", server._unpack_weakref(daemon.objectsById.get(core.DAEMON_NAME)) is dobj)
    # ---- oracle: a pool object returned from a method: proxy iff registered, else by value ----
    for name in ("O1", "O2", "O3", "O4"):
        obj = pool[name]
        if obj is None:
            continue
        ids = [k for k, v in reference if v is obj]
        out = None
        oexc = None
        try:
            out = server._pyro_obj_to_auto_proxy(obj)
        except Exception as x:
            oexc = x
        if ids:
            S.check("registered-object-travels-as-proxy", isinstance(out, client.Proxy))
            if isinstance(out, client.Proxy):
                S.check("proxy-names-an-id-of-the-object", Or(*[eq(out._pyroUri.object, i) for i in ids]))
            # (observed through behaviour only: how the serializers keep their per-type hooks is their own business)
            S.check("auto-proxy-hook-installed-for-the-type",
                    _is_proxy_dict(attempt_value(lambda: serializers.serializers["json"].default(obj))))
            # through the serializers that support auto-proxying by a `default` hook: what arrives is a proxy for the id
            for sname in ("json", "msgpack"):
                ser = serializers.serializers[sname]
                arrived = None
                try:
                    arrived = ser.loads(ser.dumps(obj))
                except Exception as x:
                    arrived = x
                S.check("registered-object-arrives-as-proxy-through-the-serializer", isinstance(arrived, client.Proxy))
                if isinstance(arrived, client.Proxy):
                    S.check("arrived-proxy-names-an-id-of-the-object", Or(*[eq(arrived._pyroUri.object, i) for i in ids]))
        else:
            S.check("unregistered-object-travels-by-value", oexc is None and out is obj)
    S.observe("reported", len(reported))
    S.observe("exc", type(exc).__name__ if exc is not None else None)


def _reset():
    from pysym.runner import default_reset
    default_reset()
    del LOG[:]
    for a in ("_pyroId", "_pyroDaemon", "_pyroInstancing"):
        if a in KC.__dict__:
            delattr(KC, a)


INTERPRET_MODULES = ["harness.rig", "harness.codecs"]
STUBS = [st for st in rig.STUBS if st[1] in ("uuid4", "UUID", "format_traceback")] + \
    [st for st in codecs.stubs() if st[0].__name__ in ("json", "msgpack")]

SPECS = [
    Spec("registry_step", h_registry_step, {"quick": {"L": 2, "L2": 11}, "thorough": {"L": 3, "L2": 12}},
         covers=["op:register", "op:unregister-object", "op:unregister-id", "op:collect-O1", "replaced-weak-object-collected",
                 "check:id-reaches-its-object", "check:registered-object-travels-as-proxy",
                 "check:duplicate-registration-is-refused-unless-forced", "check:unregistered-object-travels-by-value"],
         native_patch=env.native_env, reset=_reset,
         desc="one register (object/class, generated or symbolic given id, force, weak) / unregister by object / unregister by symbolic id / garbage collection of a weakly registered object, from every pre-state of a 3-object pool; then a lookup of an arbitrary symbolic id and the auto-proxy decision for every pool object, against a reference dict"),
]
