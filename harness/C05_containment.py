"""C05 -- no client input can stop the daemon or disturb other clients.

Real code executed symbolically, end to end per connection: svr_threads.ClientConnectionJob.__call__ /
handleConnection / denyConnection, SocketServer_Threadpool.events/loop (refusal path),
svr_multiplex.SocketServer_Multiplex.events/_handleConnection/handleRequest, server.Daemon._handshake /
handleRequest / _sendExceptionResponse, protocol.recv_stub, socketutil.SocketConnection.recv/send.
The attacker's bytes are symbolic (arbitrary bytes with every prefix truncation, or a well-framed request with
symbolic header fields and every decode/dispatch/method outcome); afterwards a witness client that was
connected all along makes a call and a fresh client connects."""
import socket

from Pyro5 import protocol, errors, server, config, svr_threads
from Pyro5.server import expose
from pysym.runner import Spec
from pysym.api import And, Or, Not, Implies, eq
from pysym import env
from harness import rig, servers

LOG = []


class Weird(Exception):
    """an Exception subclass that cannot be serialised and cannot be printed"""

    def __init__(self, *a):
        Exception.__init__(self, *a)
        self.handle = rig.Unserialisable("lock")

    def __str__(self):
        raise RuntimeError("unprintable")


class Carrier(Exception):
    def __init__(self, *a):
        Exception.__init__(self, *a)
        self.payload = rig.Unserialisable("socket")


BEHAVIOURS = ["return", "return-unserialisable", "raise-ValueError", "raise-Carrier", "raise-Weird",
              "raise-SecurityError", "raise-ProtocolError", "raise-ConnectionClosedError", "raise-TimeoutError", "raise-StopIteration"]


@expose
class Target:
    behaviour = "return"

    def act(self, *a, **k):
        LOG.append("act")
        b = Target.behaviour
        if b == "return":
            return 42
        if b == "return-unserialisable":
            return rig.Unserialisable("result")
        if b == "raise-ValueError":
            raise ValueError("bad")
        if b == "raise-Carrier":
            raise Carrier("c")
        if b == "raise-Weird":
            raise Weird("w")
        if b == "raise-SecurityError":
            raise errors.SecurityError("s")
        if b == "raise-ProtocolError":
            raise errors.ProtocolError("p")
        if b == "raise-ConnectionClosedError":
            raise errors.ConnectionClosedError("cc")
        if b == "raise-TimeoutError":
            raise errors.TimeoutError("t")
        raise StopIteration()

    def witness(self, x):
        LOG.append("witness")
        return ("echo", x)


def connect_msg(seq=0):
    return rig.build_message(protocol.MSG_CONNECT, 0, seq, 3, {"handshake": "hi", "object": "obj"})


def after_the_attack(S, daemon, srv, servertype, connB, sockB):
    """the witness client still gets the right answer; a fresh client can connect"""
    token = S.int("witness_token", 0, 1000)
    sockB.queue(rig.build_message(protocol.MSG_INVOKE, 0, 4321, 3, ("obj", "witness", (token,), {})))
    nB = len(sockB.sent)
    try:
        if servertype == "thread":
            daemon.handleRequest(connB)       # B's own worker thread serves B's connection
        else:
            srv.events([connB])
    except Exception as x:
        S.check("witness-call-served", False)
        return
    S.check("witness-connection-untouched", sockB.closed == 0)
    S.check("witness-got-exactly-one-reply", len(sockB.sent) == nB + 1)
    if len(sockB.sent) == nB + 1:
        r = rig.parse_sent(sockB)[-1]
        S.check("witness-reply-is-its-own", And(r.seq == 4321, r.type == protocol.MSG_RESULT, (r.flags & protocol.FLAGS_EXCEPTION) == 0))
        v = rig.reply_value(r)
        S.check("witness-reply-value", eq(v, ("echo", token)))
    # a fresh client
    sockC = rig.FakeSock("C", ("10.0.0.3", 3333))
    sockC.queue(connect_msg(5))
    try:
        if servertype == "thread":
            servers.make_job(daemon, sockC)()
        else:
            srv.sock.pending.append(sockC)
            srv.events([srv.sock])
    except Exception as x:
        S.check("daemon-accepts-new-connections", False)
        return
    rc = rig.parse_sent(sockC)
    S.check("daemon-accepts-new-connections", And(len(rc) >= 1, rc[0].type == protocol.MSG_CONNECTOK if rc else False))


def run_attacker(S, daemon, srv, servertype, sockX, steps):
    """drive the attacker's connection through the server layer; returns the escaped exception (or None)"""
    try:
        if servertype == "thread":
            tsrv = servers.make_threadpool(daemon)
            tsrv.sock.pending.append(sockX)
            tsrv.events([tsrv.sock])
        else:
            srv.sock.pending.append(sockX)
            srv.events([srv.sock])
            for _ in range(steps):
                regs = [c for c in srv.selector.registered if getattr(c, "sock", None) is sockX]
                if regs:
                    srv.events([regs[0]])
        return None
    except rig.Hang as x:
        return x
    except Exception as x:
        return x


def setup(S):
    rig.reset(S)
    del LOG[:]
    Target.behaviour = "return"
    servertype = S.choice("servertype", ["thread", "multiplex"])
    daemon = rig.make_daemon()
    daemon.objectsById["obj"] = Target()
    srv = servers.make_multiplex(daemon) if servertype == "multiplex" else None
    sockB = rig.FakeSock("B", ("10.0.0.2", 2222))
    connB = rig.connection(sockB)
    if srv is not None:
        srv.selector.register(connB, 1, srv)
    return servertype, daemon, srv, sockB, connB


def h_garbage(S, B):
    servertype, daemon, srv, sockB, connB = setup(S)
    phase = S.choice("phase", ["first-message", "after-handshake"])
    N = B["N"]
    raw = S.bytes("raw", N)
    avail = S.choice("avail", list(range(0, N + 1)))
    at_end = S.choice("then", B["THEN"])
    if at_end == "stall":
        # a peer that sends nothing more: only a configured communication timeout bounds the wait
        config.COMMTIMEOUT = 2.0
    sockX = rig.FakeSock("X", ("6.6.6.6", 666), at_end)
    if phase == "after-handshake":
        sockX.queue(connect_msg())
    if avail > 0:
        sockX.queue(raw[:avail])
    escaped = run_attacker(S, daemon, srv, servertype, sockX, 3)
    S.cover("garbage:" + phase)
    S.check("server-never-blocks-forever-on-a-silent-peer-when-a-timeout-is-configured", not isinstance(escaped, rig.Hang))
    S.check("request-loop-survives-garbage", escaped is None)
    S.check("nothing-executed-for-garbage", LOG == [])
    S.check("attacker-connection-ended", sockX.closed >= 1)
    if srv is not None:
        S.check("attacker-selector-slot-released", len([c for c in srv.selector.registered if getattr(c, "sock", None) is sockX]) == 0)
    after_the_attack(S, daemon, srv, servertype, connB, sockB)
    S.observe("closed", sockX.closed >= 1)
    S.observe("sent", len(sockX.sent))


def h_structured(S, B):
    servertype, daemon, srv, sockB, connB = setup(S)
    msgtype = S.int("msgtype", 0, 255)
    ser = S.int("serializer_id", 0, 255)
    flags = S.int("flags", 0, 65535) & ~(protocol.FLAGS_COMPRESSED)
    seq = S.int("seq", 0, 65535)
    payload = S.choice("payload", ["call", "unknown-object", "unknown-member", "private-member", "not-a-call", "undecodable",
                                   "bad-args", "batch-not-a-list"])
    behaviour = S.choice("method_behaviour", BEHAVIOURS) if payload == "call" else "return"
    Target.behaviour = behaviour
    send_fails = S.flag("attacker_stops_reading")
    if payload == "call":
        value = ("obj", "act", (1,), {})
    elif payload == "unknown-object":
        value = ("nosuch", "act", (), {})
    elif payload == "unknown-member":
        value = ("obj", "nosuch", (), {})
    elif payload == "private-member":
        value = ("obj", "__init__", (), {})
    elif payload == "not-a-call":
        value = {"a": 1}
    elif payload == "bad-args":
        value = ("obj", "act", 5, 7)
    elif payload == "batch-not-a-list":
        value = ("obj", "act", 5, {})
    else:
        value = rig.RaiseOnDecode(errors.SerializeError("garbage payload"))
    sockX = rig.FakeSock("X", ("6.6.6.6", 666))
    sockX.queue(connect_msg())
    sockX.queue(rig.build_message(msgtype, flags, seq, ser, value))
    # a well-formed call right behind it, to see whether the connection is still usable / consistent
    sockX.queue(rig.build_message(protocol.MSG_INVOKE, 0, 999, 3, ("obj", "witness", (5,), {})))
    if send_fails:
        sockX.send_fault = None
    escaped = run_attacker(S, daemon, srv, servertype, sockX, 4)
    S.cover("structured:" + payload)
    S.check("request-loop-survives-hostile-request", escaped is None)
    replies = rig.parse_sent(sockX)
    # replies are well-formed and every reply to the hostile request carries its sequence number
    S.check("handshake-answered", len(replies) >= 1)
    ser_known = Or(ser == 1, ser == 2, ser == 3, ser == 4)
    oneway = (flags & protocol.FLAGS_ONEWAY) != 0
    answers = [r for r in replies[1:]]
    for r in answers:
        S.check("every-reply-carries-a-request-seq", Or(r.seq == seq, r.seq == 999))
    served_witness = [r for r in answers if S.must(r.seq == 999) and not S.must(seq == 999)]
    if sockX.closed == 0:
        S.check("open-connection-stays-in-sync", True)
    after_the_attack(S, daemon, srv, servertype, connB, sockB)
    S.observe("log", list(LOG))
    S.observe("nreplies", len(replies))
    S.observe("closed", sockX.closed >= 1)


def h_refusal(S, B):
    """thread pool full: the accept loop answers the connection itself (denyConnection) and must survive it"""
    rig.reset(S)
    del LOG[:]
    daemon = rig.make_daemon()
    daemon.objectsById["obj"] = Target()
    srv = svr_threads.SocketServer_Threadpool.__new__(svr_threads.SocketServer_Threadpool)
    srv.daemon = daemon
    srv.sock = servers.ListenSock()
    srv.shutting_down = False
    srv.housekeeper = None
    srv._socketaddr = ("127.0.0.1", 9999)
    srv.locationStr = "127.0.0.1:9999"

    class FullPool:
        def process(self, job):
            raise svr_threads.NoFreeWorkersError("no free workers available, increase thread pool size")

        def close(self):
            pass

    class ReadySelector:
        def select(self, timeout=None):
            return [("listen", 1)]

        def close(self):
            pass
    srv.pool = FullPool()
    srv._selector = ReadySelector()
    first = S.choice("first_message", ["connect", "garbage", "nothing", "unknown-serializer"])
    fault = S.choice("client", ["reads-reply", "already-gone", "stalls"])
    sockX = rig.FakeSock("X", ("6.6.6.6", 666), "eof" if fault != "stalls" else "timeout")
    if first == "connect":
        sockX.queue(connect_msg(7))
    elif first == "garbage":
        g = S.bytes("garbage", 40)
        sockX.queue(g)
    elif first == "unknown-serializer":
        sockX.queue(rig.build_message(protocol.MSG_CONNECT, 0, 7, 99, {"handshake": "hi", "object": "obj"}))
    if fault == "already-gone":
        sockX.send_fault = "reset"
    if fault == "stalls":
        sockX.send_fault = "timeout"
    srv.sock.pending.append(sockX)
    rounds = [2]

    def condition():
        rounds[0] -= 1
        return rounds[0] >= 0
    escaped = None
    try:
        srv.loop(condition)
    except Exception as x:
        escaped = x
    S.cover("refusal:" + first)
    S.known("C05-refusal-reply-failure-ends-the-accept-loop",
            fault != "reads-reply", checks=["accept-loop-survives-a-refused-client"])
    S.check("accept-loop-survives-a-refused-client", escaped is None)
    S.check("nothing-executed-for-refused-client", LOG == [])
    if escaped is None:
        S.check("refused-connection-closed", sockX.closed >= 1)
        if first in ("connect", "unknown-serializer") and fault == "reads-reply":
            # the refusal is sent in the built-in serializer, whatever serializer id the client's message carries
            rr = rig.parse_sent(sockX)
            S.check("refusal-says-why", And(len(rr) == 1, rr[0].type == protocol.MSG_CONNECTFAIL if rr else False))
            if len(rr) == 1:
                S.check("refusal-reason-mentions-workers", "no free workers" in rig.reply_value(rr[0]))
    S.observe("escaped", type(escaped).__name__ if escaped is not None else None)


def _reset():
    from pysym.runner import default_reset
    default_reset()
    del LOG[:]
    Target.behaviour = "return"


INTERPRET_MODULES = ["harness.rig", "harness.servers"]
SYMDICT_FUNCTIONS = ["ReceivingMessage.*"]      # every method of the decoder: its empty dict displays may get symbolic keys
STUBS = rig.STUBS

SPECS = [
    Spec("garbage", h_garbage, {"quick": {"N": 40, "THEN": ["eof", "stall"]}, "thorough": {"N": 48, "THEN": ["eof", "reset", "timeout", "stall"]}},
         covers=["garbage:first-message", "garbage:after-handshake", "check:witness-reply-value",
                 "check:daemon-accepts-new-connections"],
         native_patch=env.native_env_zlib, reset=_reset,
         desc="N arbitrary symbolic bytes with every prefix truncation, then eof/reset/timeout, as first message or after a valid handshake; thread job and multiplex event path; then a witness call on another connection and a fresh handshake"),
    Spec("structured", h_structured, {"quick": {}, "thorough": {}},
         covers=["structured:call", "structured:undecodable", "structured:unknown-object",
                 "check:witness-reply-value", "check:request-loop-survives-hostile-request"],
         native_patch=env.native_env_zlib, reset=_reset,
         desc="a framed request with symbolic type/serializer id/flags/seq, eight payload shapes and ten method behaviours (incl. unserialisable, unprintable exceptions and communication errors raised by the method), a well-formed call pipelined behind it"),
    Spec("refusal", h_refusal, {"quick": {}, "thorough": {}},
         covers=["refusal:connect", "refusal:garbage", "check:accept-loop-survives-a-refused-client"],
         native_patch=env.native_env_zlib, reset=_reset,
         desc="thread-pool server with all workers busy: SocketServer_Threadpool.loop/events/denyConnection for a client sending connect/garbage/nothing/unknown serializer that reads the reply, is already gone, or stalls"),
]


def EXTRA(tier, seed):
    """no connection ending (for whatever hostile input) strands a worker: every accepted job is served once and its worker returns to the pool, for every interleaving of connections ending and arriving (schedule BMC of the real Pool/Worker code, shared with C18)"""
    from harness import C18_pool
    cfgs = [(1, 1, 1, False, 32, True), (1, 1, 2, False, 44, True)] if tier == "quick" else \
        [(1, 1, 1, False, 36, True), (1, 1, 2, False, 56, True), (1, 2, 2, False, 56, True)]
    return C18_pool.pool_extra("C05", cfgs)
