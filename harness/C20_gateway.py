"""C20 -- the HTTP gateway forwards only authorised requests, and forwards them faithfully.

Real code executed symbolically: utils.httpgateway.pyro_app, process_pyro_request, singlyfy_parameters, and the
real client.Proxy.__getattr__/_RemoteMethod path of the proxy the gateway creates (its transport is a recording
stub).  Request method, PATH_INFO, key header, $key parameter and query parameter values are symbolic strings."""
import urllib.parse

from Pyro5 import client, errors, protocol, config
from Pyro5.utils import httpgateway as gw
from pysym.runner import Spec
from pysym.api import And, Or, Not, Implies, eq
from pysym import env
from harness import rig

class _DevNull:
    def write(self, text):
        pass

    def flush(self):
        pass


DEVNULL = _DevNull()
TRAFFIC = []          # every contact with the name server or a Pyro object


class FakeNS:
    def ping(self):
        pass

    def lookup(self, name):
        TRAFFIC.append(("lookup", name))
        if RecordingProxy.lookup_fails:
            raise errors.NamingError("unknown name: " + ("?" if not isinstance(name, str) else name))
        return "PYRO:obj@localhost:9999"

    def list(self, regex=None, prefix=None):
        TRAFFIC.append(("list", regex))
        return {}

    def _pyroClaimOwnership(self):
        pass

    def _pyroInvokeBatch(self, calls, oneway=False):
        TRAFFIC.append(("ns-batch", len(calls)))
        return ["PYRO:obj@localhost:9999" for c in calls]

    @property
    def _pyroUri(self):
        from Pyro5 import core
        return core.URI("PYRO:Pyro.NameServer@localhost:9090")


class Reply:
    def __init__(self, flags, data):
        self.flags = flags
        self.data = data


class RecordingProxy:
    """state of the recording transport (the gateway uses the REAL client.Proxy class -- attribute routing,
    _RemoteMethod -- whose four network methods are replaced by the functions below)"""
    reply_is_exception = False
    outcome = "reply"          # reply | lost-partial | lost | raises
    lookup_fails = False


def rec_invoke(self, methodname, vargs, kwargs, flags=0, objectId=None):
    TRAFFIC.append(("invoke", methodname, tuple(vargs), dict(kwargs or {}), methodname in self._pyroOneway))
    if methodname in self._pyroOneway:
        return None
    if RecordingProxy.outcome == "lost-partial":
        # the connection closes in an orderly way while the reply is being read: socketutil.receive_data attaches what it got
        x = errors.ConnectionClosedError("receiving: not enough data")
        x.partialData = bytearray(b"PYRO")
        raise x
    if RecordingProxy.outcome == "lost":
        raise errors.ConnectionClosedError("receiving: connection lost: [Errno 104] Connection reset by peer")
    if RecordingProxy.outcome == "raises":
        raise errors.ProtocolError("invalid data or unsupported protocol version")
    if RecordingProxy.reply_is_exception:
        return Reply(protocol.FLAGS_EXCEPTION, b'{"result": 1}')
    return Reply(0, b'{"result": 1}')


def rec_get_metadata(self, objectId=None, known_metadata=None):
    TRAFFIC.append(("metadata",))
    self._pyroMethods = {"echo", "ping", "oneway_work"}
    self._pyroAttrs = {"value"}
    self._pyroOneway = rig.symset(["oneway_work"])


def rec_bind(self):
    TRAFFIC.append(("bind",))


def rec_release(self):
    pass


class Response:
    def __init__(self):
        self.status = None
        self.headers = None

    def __call__(self, status, headers):
        self.status = status
        self.headers = headers


def fake_get_nameserver():
    TRAFFIC.append(("get_nameserver",))
    return FakeNS()


def fake_parse_qs(qs, *a, **k):
    return dict(PARSED[0])


PARSED = [{}]
ASCII = [(0x20, 0x7E)]
NO_NEWLINE = [(0, 9), (11, 0xD7FF), (0xE000, 0x10FFFF)]      # every code point except "\n" (and surrogates)
PATTERNS = [r"http\.", "", r"x.y"]


def pattern_allows(pattern, name):
    """independent statement of what each listed expose pattern admits"""
    if pattern == "":
        return True
    if pattern == r"http\.":
        return name.startswith("http.")
    # x.y : 'x', any character except newline, 'y' as a prefix
    return And(len(name) >= 3, eq(name[0], "x"), eq(name[2], "y"), Not(eq(name[1], "\n")))


def h_request(S, B):
    rig.reset(S)
    del TRAFFIC[:]
    forwarding = B["MODE"] == "forwarding"
    member_part = None
    mkind = S.choice("method_kind", ["GET", "POST"] if forwarding else B.get("METHODS", ["GET", "POST", "OPTIONS", "other"]))
    method = mkind if mkind != "other" else S.str("REQUEST_METHOD", B["LM"])
    if mkind == "other":
        S.assume(And(Not(eq(method, "GET")), Not(eq(method, "POST")), Not(eq(method, "OPTIONS"))), "the 'other' request method is none of GET/POST/OPTIONS")
    routing = B["MODE"] == "routing"
    if forwarding:
        # fixed, authorised object; the member part of the path is symbolic
        path = "/pyro/http.obj/" + (S.choice("member", B["FIXED_MEMBERS"]) if "FIXED_MEMBERS" in B else S.str("member", B["L"]))
    elif routing:
        path = S.str("PATH_INFO", B["L"], 0, NO_NEWLINE)
    else:
        # authorisation: symbolic object name under a few path prefixes, with a real member behind it
        member_part = S.choice("member_part", B["MEMBERS"])
        path = S.choice("path_prefix", B["PREFIXES"]) + S.str("object_name", B["L"], 0, NO_NEWLINE) + member_part
    call_like = mkind in ("GET", "POST")
    keycfg = S.choice("configured_key", ["none"] if (forwarding or routing or not call_like) else ["none", "empty", "set"])
    configured = None if keycfg == "none" else (b"" if keycfg == "empty" else S.bytes("gateway_key", 2))
    if keycfg == "set":
        S.assume(And(configured[0] < 128, configured[1] < 128), "the configured key is ASCII")
    presentation = S.choice("key_presented", {"none": ["none", "param"], "empty": ["none"], "set": ["none", "header", "param", "both"]}[keycfg]
                            if call_like else ["none"])
    header_key = S.str("key_header", 2, 0, ASCII) if presentation in ("header", "both") else None
    param_key = S.str("key_param", 2, 0, ASCII) if presentation in ("param", "both") else None
    pattern = S.choice("expose_pattern", PATTERNS[:1] if (forwarding or not call_like) else (PATTERNS[1:2] if routing else PATTERNS))
    oneway_opt = S.flag("oneway_option") if forwarding else False
    RecordingProxy.reply_is_exception = S.bool("remote_call_raises") if forwarding else False
    RecordingProxy.outcome = S.choice("remote_call_outcome", B.get("OUTCOMES", ["reply"])) if forwarding else "reply"
    RecordingProxy.lookup_fails = S.flag("name_is_unknown_to_the_name_server") if forwarding and "FIXED_MEMBERS" in B and RecordingProxy.outcome == "reply" else False
    params = {}
    if not routing and (forwarding or member_part == "/echo") and S.flag("has_parameter"):
        params["message"] = S.str("param_value", 2)
    if param_key is not None:
        params["$key"] = param_key
    PARSED[0] = params
    gw.pyro_app.ns_regex = pattern
    gw.pyro_app.gateway_key = configured
    gw.pyro_app.cors = "*"
    environ = {"REQUEST_METHOD": method, "PATH_INFO": path, "QUERY_STRING": "ignored", "wsgi.errors": DEVNULL,
               "HTTP_X_PYRO_OPTIONS": "oneway" if oneway_opt else ""}
    if header_key is not None:
        environ["HTTP_X_PYRO_GATEWAY_KEY"] = header_key
    resp = Response()
    body = None
    escaped = None
    try:
        body = gw.pyro_app(environ, resp)
    except Exception as x:
        escaped = x
    S.check("gateway-answers-every-request", escaped is None and resp.status is not None)
    if escaped is not None or resp.status is None:
        return
    code = resp.status[:3]
    S.cover("status:" + code)
    lookups = [t for t in TRAFFIC if t[0] == "lookup"]
    invokes = [t for t in TRAFFIC if t[0] == "invoke"]
    metas = [t for t in TRAFFIC if t[0] == "metadata"]
    # ---- which kind of request is it (from the statement, on the raw inputs) ------------------------------
    stripped = path.lstrip("/")
    is_pyro = stripped.startswith("pyro/")
    if not S.must(is_pyro) or mkind in ("OPTIONS", "other"):
        S.check("non-call-requests-cause-no-pyro-traffic", TRAFFIC == [])
        S.check("non-call-requests-status", code in ("302", "404", "405", "200") and (code != "200" or mkind == "OPTIONS"))
        return
    rest = stripped[5:]
    if len(rest) == 0:
        S.cover("index")
        S.check("index-page-does-not-invoke-objects", invokes == [] and lookups == [])
        return
    # key presented by the client: the header wins when it is non-empty, else the $key parameter
    key_ok = True
    if keycfg == "set":
        presented = ""
        if header_key is not None and len(header_key) > 0:
            presented = header_key
        elif param_key is not None:
            presented = param_key
        key_ok = And(len(presented) == 2, presented[0] == chr_of(S, configured[0]), presented[1] == chr_of(S, configured[1])) if len(presented) == 2 else False
    if len(lookups) == 0:
        S.cover("denied")
        S.check("denied-requests-cause-no-pyro-traffic", TRAFFIC == [])
        S.check("denied-status", code in ("403", "404", "405"))
        # an authorised, well-formed request is not denied
        S.observe("denied", code)
        return
    S.cover("forwarded")
    S.check("forwarded-only-with-the-right-key", key_ok)
    S.check("exactly-one-lookup", len(lookups) == 1)
    name = lookups[0][1]
    S.check("forwarded-only-if-the-pattern-allows-the-object", pattern_allows(pattern, name))
    S.known("C20-path-is-matched-as-a-prefix-so-a-newline-truncates-the-member-name", "\n" in rest,
            checks=["exactly-the-named-object-and-member", "only-$meta-answers-without-a-call"])
    S.known("C20-members-named-like-local-proxy-attributes-are-not-forwarded", And(len(invokes) == 0, len(metas) == 1),
            checks=["only-$meta-answers-without-a-call", "no-call-means-error-status"])
    if len(invokes) == 1:
        member = invokes[0][1]
        if member == "__getattr__":
            member = invokes[0][2][0]
            S.check("attribute-read-has-no-parameters", invokes[0][3] == {} and len(invokes[0][2]) == 1)
        else:
            expected_params = {k: v for k, v in params.items() if k != "$key" or keycfg != "set"}
            S.check("exactly-the-query-parameters", sorted(invokes[0][3].keys()) == sorted(expected_params.keys()))
            for k in expected_params:
                if k in invokes[0][3]:
                    S.check("parameter-values-forwarded-unchanged", eq(invokes[0][3][k], expected_params[k]))
        S.check("exactly-the-named-object-and-member", eq(name + "/" + member, rest))
        S.check("member-has-no-slash", Not("/" in member))
        if invokes[0][4] or (oneway_opt and RecordingProxy.outcome == "reply"):
            S.check("oneway-answers-200-empty", code == "200")
        else:
            if RecordingProxy.outcome == "reply":
                S.check("status-follows-the-reply", Or(And(RecordingProxy.reply_is_exception, code == "500"),
                                                       And(Not(RecordingProxy.reply_is_exception), code == "200")))
            else:
                # the one call failed on the way (connection lost while waiting for the reply, protocol error): the method may
                # have run, so it is not repeated; the HTTP client gets that call's error
                S.cover("call-failed-in-transit")
                S.check("failed-call-is-reported-as-500", code == "500")
                S.check("failed-call-error-body-names-the-error", _is_json_error(body))
    elif len(invokes) == 0:
        # $meta, or an error before the call
        if code == "200":
            S.check("only-$meta-answers-without-a-call", eq(rest, name + "/$meta"))
        else:
            S.check("no-call-means-error-status", code == "500")
    else:
        S.check("at-most-one-invocation", False)
    if RecordingProxy.lookup_fails:
        S.cover("unknown-name")
        S.check("unknown-name-is-an-error-without-a-call", len(invokes) == 0 and code == "500" and _is_json_error(body))
    S.observe("traffic", [t[0] for t in TRAFFIC])
    S.observe("status", code)


def _is_json_error(body):
    import json
    if not all(isinstance(b, bytes) for b in body):
        return True         # (symbolic mode) opaque text produced by json.dumps from a dict with symbolic members
    try:
        d = json.loads(b"".join(body).decode("utf-8"))
    except Exception:
        return False
    return isinstance(d, dict) and d.get("__exception__") is True and isinstance(d.get("__class__"), str)


def chr_of(S, b):
    """the character with code point b (b < 128)"""
    if S.symbolic:
        from pysym.strings import StrVec
        from pysym.values import iterm
        return StrVec.from_terms([iterm(b)])
    return chr(b)


def _reset():
    from pysym.runner import default_reset
    default_reset()
    del TRAFFIC[:]
    gw.pyro_app.ns_regex = r"http\."
    gw.pyro_app.gateway_key = None
    gw.pyro_app.cors = ""


INTERPRET_MODULES = ["harness.rig"]
STUBS = [st for st in rig.STUBS if st[1] in ("uuid4", "UUID", "format_traceback")] + [
    (gw, "get_nameserver", fake_get_nameserver, "both"),
    (client.Proxy, "_pyroInvoke", rec_invoke, "both"),
    (client.Proxy, "_pyroGetMetadata", rec_get_metadata, "both"),
    (client.Proxy, "_pyroBind", rec_bind, "both"),
    (client.Proxy, "_pyroRelease", rec_release, "both"),
    (urllib.parse, "parse_qs", fake_parse_qs, "both"),
]

SPECS = [
    Spec("routing", h_request, {"quick": {"L": 8, "LM": 4, "MODE": "routing"}, "thorough": {"L": 11, "LM": 7, "MODE": "routing"}},
         covers=["status:200", "status:302", "status:404", "status:405", "index", "denied"],
         native_patch=env.native_env, reset=_reset,
         desc="one WSGI request with symbolic REQUEST_METHOD (any code points) and fully symbolic PATH_INFO (any code points except newline), no key, empty expose pattern"),
    Spec("authorisation", h_request, {"quick": {"L": 6, "LM": 4, "MODE": "auth", "METHODS": ["GET"], "PREFIXES": ["/pyro/", "/pyrox/"], "MEMBERS": ["/echo", "/$meta", ""]},
                                      "thorough": {"L": 8, "LM": 7, "MODE": "auth", "METHODS": ["GET", "POST"], "PREFIXES": ["/pyro/", "pyro/", "//pyro/", "/pyrox/"],
                                                   "MEMBERS": ["/echo", "/$meta", "/value", "", "/"]}},
         covers=["status:200", "status:403", "status:404", "forwarded", "denied",
                 "check:forwarded-only-with-the-right-key", "check:exactly-the-query-parameters",
                 "check:forwarded-only-if-the-pattern-allows-the-object"],
         native_patch=env.native_env, reset=_reset,
         desc="a call request <prefix><object name>/<member> with a symbolic object name (any code points except newline) under four path prefixes and five member parts, key header and $key parameter (symbolic ASCII), configured key none/empty/symbolic 2 bytes, three expose patterns, optional query parameter; name server and proxy transport are recording stubs under the real Proxy attribute routing"),
    Spec("forwarding", h_request, {"quick": {"L": 7, "LM": 4, "MODE": "forwarding"}, "thorough": {"L": 12, "LM": 7, "MODE": "forwarding"}},
         covers=["status:200", "status:500", "forwarded", "check:exactly-the-query-parameters", "check:exactly-the-named-object-and-member", "check:status-follows-the-reply",
                 "check:only-$meta-answers-without-a-call"],
         native_patch=env.native_env, reset=_reset,
         desc="an authorised call request /pyro/http.obj/<member> with a symbolic member (any code points), symbolic parameter value and $key parameter, oneway option, remote reply ok/exception, through the real Proxy attribute routing"),
    Spec("call_failures", h_request, {"quick": {"L": 4, "LM": 4, "MODE": "forwarding", "FIXED_MEMBERS": ["echo", "value", "oneway_work", "$meta"],
                                                "OUTCOMES": ["reply", "lost-partial", "lost", "raises"]},
                                      "thorough": {"L": 4, "LM": 4, "MODE": "forwarding", "FIXED_MEMBERS": ["echo", "value", "oneway_work", "$meta", "ping"],
                                                   "OUTCOMES": ["reply", "lost-partial", "lost", "raises"]}},
         covers=["status:200", "status:500", "forwarded", "call-failed-in-transit", "unknown-name", "check:failed-call-is-reported-as-500",
                 "check:failed-call-error-body-names-the-error", "check:unknown-name-is-an-error-without-a-call"],
         native_patch=env.native_env, reset=_reset,
         desc="an authorised call request for a method, an attribute, a oneway method or $meta whose one remote call returns, answers with an exception, loses its connection while the reply is read (with and without partial data attached, as socketutil.receive_data does), or fails with a protocol error; or whose name the name server does not know"),
]
