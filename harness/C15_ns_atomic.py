"""C15 -- name server operations are atomic under concurrent clients.

Schedule BMC (symbmc) over the real NameServer.register/remove/set_metadata/lookup and MemoryStorage.remove_items:
every pair (thorough: selected triples) of operation kinds, with solver-chosen names, URIs, metadata, initial map
and thread schedule at statement granularity; oracle: no internal error escapes and results plus final map are
explained by some sequential order (linearizability against a reference map in z3)."""
import os
import json
import time
import itertools
import multiprocessing as mp

SPECS = []
OPS = ["register_safe", "register_unsafe", "remove_name", "remove_prefix", "set_metadata", "lookup", "lookup_meta"]
KNOWN = "C15-remove-is-not-atomic"


def _configs(tier):
    pairs = list(itertools.combinations_with_replacement(OPS, 2))
    cfgs = [tuple(p) for p in pairs]
    if tier == "thorough":
        cfgs += [("register_safe",) * 3, ("register_safe", "register_safe", "lookup"), ("register_unsafe", "set_metadata", "lookup"),
                 ("register_safe", "set_metadata", "register_unsafe"), ("set_metadata", "set_metadata", "register_unsafe")]
    return cfgs


def _run(args):
    from symbmc import nameserver as N
    ops, known_active = args
    T = len(ops)
    res = {"ops": ops, "errors": [], "inconclusive": [], "known": None, "violation": None}
    try:
        out = N.check(T, None, ops=ops, timeout_s=900)
        res.update({"result": out["result"], "K": out["K"], "nodes": out["nodes"], "wall_s": round(out["wall_s"], 2),
                    "encoded": out["encoded"], "untranslated_but_unreachable_nodes": out["untranslated_nodes"]})
        if out["result"] == "sat":
            v = out["violation"]
            det = N.replay(T, v["ops"], v["initial_map"], v["schedule"], v["model_lines"])
            v["replay"] = det
            if not det["reproduced"]:
                res["errors"].append("schedule for %r (%s) does not reproduce on the real NameServer: %r" % (ops, v["label"], det))
            elif any(o.startswith("remove") for o in ops) and KNOWN in known_active:
                res["known"] = v
            else:
                res["violation"] = v
        elif out["result"] != "unsat":
            res["inconclusive"].append("solver answered %s for %r" % (out["result"], ops))
    except Exception as x:
        import traceback
        res["errors"].append("%s: %s\n%s" % (type(x).__name__, x, traceback.format_exc()[-600:]))
    return res


def EXTRA(tier, seed):
    from pysym import check as C
    known = C.load_known("C15")
    cfgs = _configs(tier)
    ctx = mp.get_context("fork")
    with ctx.Pool(min(len(cfgs), 16)) as p:
        results = p.map(_run, [(c, tuple(known.keys())) for c in cfgs])
    out = {"lines": [], "violations": 0, "errors": [], "inconclusive": [], "known_hit": {}, "coverage": {}, "assumptions": []}
    os.makedirs(os.path.join(C.OUT, "replays"), exist_ok=True)
    states = transitions = validated = 0
    samples = []
    encoded = {}
    runs = []
    for i, r in enumerate(results):
        print("[C15/symbmc] %s: %s K=%s wall=%ss" % ("+".join(r["ops"]), r.get("result"), r.get("K"), r.get("wall_s")), flush=True)
        out["errors"].extend(r["errors"])
        out["inconclusive"].extend(r["inconclusive"])
        encoded.update(r.get("encoded", {}))
        runs.append({k: r.get(k) for k in ("ops", "result", "K", "nodes", "wall_s", "untranslated_but_unreachable_nodes")})
        if r.get("K"):
            states += r["K"] + 1
            transitions += r["K"] * r["nodes"]
        if r["known"]:
            out["known_hit"][KNOWN] = r["known"]
            validated += 1
            if len(samples) < 3:
                samples.append({"ops": r["ops"], "known_finding": KNOWN, "arguments": r["known"]["ops"], "initial_map": r["known"]["initial_map"],
                                "schedule": r["known"]["schedule"][:50], "replay_on_real_threads": r["known"]["replay"]})
        if r["violation"]:
            v = r["violation"]
            path = os.path.join(C.OUT, "replays", "C15-symbmc-%d.json" % i)
            json.dump({"property": "C15", "engine": "symbmc", "target": "nameserver", "ops": v["ops"], "initial_map": v["initial_map"],
                       "label": v["label"], "schedule": v["schedule"], "model_lines": v["model_lines"]}, open(path, "w"), indent=1)
            out["lines"].append("VIOLATION property=C15 replay=%s" % path)
            out["lines"].append("  '%s' for concurrent %s; the schedule reproduces on the real NameServer with real threads: %r"
                                % (v["label"], " || ".join("%s%r" % (o[0], tuple(o[1:])) for o in v["ops"]), v["replay"]))
            out["violations"] += 1
            validated += 1
    out["coverage"] = {"states": states, "transitions": transitions, "traces_validated_against_impl": validated,
                       "samples": samples or [{"pairs": len(cfgs), "result": "unsat for every operation combination"}],
                       "symbmc": {"runs": runs, "functions_encoded": encoded}}
    out["assumptions"] = ["statement-level atomicity (CPython GIL)", "NameServer.list() (which holds the lock for its whole body) is one atomic guarded step",
                          "2-name universe, both names match the prefix; MemoryStorage back-end",
                          "one operation per client; K = number of CFG nodes of the combination (every node can fire once; loops are over <= 2 names)",
                          "combinations containing a remove operation are attributed to the known finding when they violate (other violations in those combinations are not separated)"]
    return out
