"""C04 -- deserialisation builds only data and a fixed set of known classes.

Real code executed symbolically: serializers.SerializerBase.dict_to_class, make_exception, recreate_classes,
SerpentSerializer.dict_to_class, MsgpackSerializer.object_hook/ext_hook, and the __setstate__ targets
(core.URI, client.Proxy, server.Daemon).  The class tag is a symbolic string (any code points) or bytes; getattr on
builtins / Pyro5.errors / sqlite3 with a symbolic name forks over the module's real namespace; every call made
while decoding is logged by the interpreter and checked against a whitelist."""
import builtins
import sqlite3
import struct
import sys

# an application exception class derived from PyroError that exists BEFORE Pyro5.serializers is imported (applications
# define their error classes first and import the rest of Pyro later): it is not part of the closed set
from Pyro5 import errors as _early_errors


class ApplicationBillingError(_early_errors.PyroError):
    def __init__(self, *args):
        APP_CONSTRUCTED.append(args)
        _early_errors.PyroError.__init__(self, *args)


APP_CONSTRUCTED = []
APP_CLASS_DEFINED_BEFORE_SERIALIZERS = "Pyro5.serializers" not in sys.modules

from Pyro5 import serializers, errors, core, client, server
from pysym.runner import Spec
from pysym.api import And, Or, Not, Implies, eq
from pysym import env
from Pyro5 import socketutil


def allowed_classes():
    """the closed set, rebuilt from the property statement: class -> list of tags that may produce it"""
    out = {}

    def add(cls, tag):
        out.setdefault(cls, []).append(tag)
    add(core.URI, "Pyro5.core.URI")
    add(client.Proxy, "Pyro5.client.Proxy")
    add(server.Daemon, "Pyro5.server.Daemon")
    for n in ("SerpentSerializer", "MarshalSerializer", "JsonSerializer", "MsgpackSerializer"):
        add(getattr(serializers, n), "Pyro5.util." + n)
    add(core._ExceptionWrapper, "Pyro5.core._ExceptionWrapper")
    add(struct.error, "struct.error")
    for name, t in vars(builtins).items():
        if type(t) is type and issubclass(t, BaseException):
            add(t, "builtins." + name)
            add(t, "exceptions." + name)
            if name not in vars(errors) or not (type(vars(errors)[name]) is type and issubclass(vars(errors)[name], errors.PyroError)):
                add(t, name)
    for name, t in vars(errors).items():
        if type(t) is type and issubclass(t, errors.PyroError):
            add(t, "Pyro5.errors." + name)
            add(t, name)
    for name in dir(sqlite3):
        t = getattr(sqlite3, name)
        if isinstance(t, type) and issubclass(t, BaseException) and name.endswith("Error"):
            add(t, "sqlite3." + name)
    return out


ALLOWED = allowed_classes()
NEEDS_EXCEPTION_FLAG = lambda tag: not (tag.startswith("Pyro5.") or tag == "struct.error")

ARGS = [[], ["msg"], [1, 2], ["a", {"__class__": "os.system"}]]
ATTRS = [None, {}, {"x": 1}, {"__class__": "evil", "args": (1,)}, {"__init__": 5, "handle": [1, 2]}]
STATES = [None, (), ("PYRO:o@h:1",), ("PYRO", "o", None, "h", 1), ("PYRO:o@h:1", (), ("m",), (), "hello", "serpent"), "text", 5]

BUNDLES = [
    ([], None, (), None),
    (["msg"], {"x": 1}, ("PYRO:o@h:1", (), ("m",), (), "hello", "serpent"), {"__class__": "builtins.ValueError", "__exception__": True, "args": ["inner"]}),
    ([1, 2], {"__class__": "evil", "args": (1,)}, ("PYRO", "o", None, "h", 1), {"__class__": "os.system", "args": ["id"]}),
    (["a", {"__class__": "os.system"}], {"__init__": 5, "handle": [1, 2]}, (), "text"),
    ([], {}, "text", None),
    (["m"], None, 5, None),
]

DATA_TYPES = (dict, list, tuple, set, str, bytes, int, float, type, frozenset, bool, super, range, enumerate, zip, map, filter,
              reversed, slice, object, bytearray, memoryview, complex)

CALL_WHITELIST_MODULES = ("Pyro5.", "pysym.", "harness.")
FORBIDDEN_NAMES = {"__import__", "exec", "eval", "compile", "open", "system", "popen", "Popen", "run", "socket", "create_connection"}


class CallLog:
    def __init__(self):
        self.bad = []
        self.constructed = []
        self.active = False

    def hook(self, f, args, kwargs):
        if not self.active:
            return
        name = getattr(f, "__name__", None) or getattr(type(f), "__name__", "?")
        if name in FORBIDDEN_NAMES:
            self.bad.append(name)
        if isinstance(f, type):
            self.constructed.append(f)


def install_call_log(S):
    log = CallLog()
    if S.symbolic:
        S.interp.call_hook = log.hook
    return log


def h_dict_to_class(S, B):
    log = install_call_log(S)
    kind = S.choice("tag_kind", ["str", "bytes", "missing", "nonstring"])
    if kind == "str":
        tag = S.str("tag", B["L"])
    elif kind == "bytes":
        tag = S.bytes("tag_bytes", B["LB"])
        for i in range(B["LB"]):
            S.assume(tag[i] < 128, "bytes tags are ASCII (the code decodes them as utf-8)")
    elif kind == "missing":
        tag = None
    else:
        tag = S.choice("tag_other", [5, None, ("Pyro5.core.URI",), 1.5])
    flagkind = S.choice("exception_flag", ["absent", "bool", "truthy-text"])
    flag = "absent"
    data = {}
    if kind != "missing":
        data["__class__"] = tag
    if flagkind == "bool":
        flag = S.bool("exception_flag_value")        # decided only where the code looks at it
        data["__exception__"] = flag
    elif flagkind == "truthy-text":
        flag = "yes"
        data["__exception__"] = flag
    bundle = S.choice("members", B["BUNDLES"])
    args, attrs, state, exmember = BUNDLES[bundle]
    data["args"] = args
    if attrs is not None:
        data["attributes"] = attrs
    if state is not None:
        data["state"] = state
    if exmember is not None:
        data["exception"] = exmember
    via = S.choice("via", B["VIA"])
    if via == "recreate_classes-deeply-nested" and (kind == "bytes" or bundle != B["BUNDLES"][0]):
        S.assume(False, "the deeply nested route is explored with text tags and the first member bundle only")
    result = None
    exc = None
    log.active = True
    try:
        if via == "dict_to_class":
            result = serializers.SerializerBase.dict_to_class(data)
        elif via == "recreate_classes-toplevel":
            result = serializers.serializers["json"].recreate_classes(data)
        elif via == "recreate_classes-in-list":
            result = serializers.serializers["json"].recreate_classes([1, data])[1]
        elif via == "recreate_classes-in-dict":
            result = serializers.serializers["marshal"].recreate_classes({"k": (data,)})["k"][0]
        elif via == "recreate_classes-deeply-nested":
            # the statement holds at any nesting depth: the tagged dict sits inside 120 containers
            nested = data
            for _ in range(120):
                nested = [nested]
            result = serializers.serializers["json"].recreate_classes(nested)
            for _ in range(120):
                result = result[0]
        elif via == "serpent-dict_to_class":
            result = serializers.SerpentSerializer.dict_to_class(data)
        else:
            result = serializers.serializers["msgpack"].object_hook(data)
    except Exception as x:
        exc = x
    log.active = False
    if S.symbolic:
        S.interp.call_hook = None
    S.check("no-forbidden-call-while-decoding", log.bad == [])
    for c in log.constructed:
        ok = c in ALLOWED or c in DATA_TYPES or issubclass(c, BaseException)
        if not ok:
            S.note("constructed: %s.%s" % (c.__module__, c.__qualname__))
        S.check("only-closed-set-constructors-run", ok)
    text_tag = tag if kind in ("str",) else None
    if kind == "bytes":
        # bytes tags are decoded as utf-8 by the code; ascii-only here
        try:
            text_tag = tag.decode("utf-8")
        except Exception as x:
            text_tag = None
    if exc is not None:
        S.cover("rejected:" + type(exc).__name__)
        S.observe("rejected", type(exc).__name__)
        # decoding is stateless: what was refused once is refused again (no refused tag may leave anything behind
        # that makes a later message with the same tag acceptable)
        if via == "dict_to_class":
            again = None
            log.active = True
            if S.symbolic:
                S.interp.call_hook = log.hook
            try:
                again = ("accepted", type(serializers.SerializerBase.dict_to_class(dict(data))))
            except Exception as x:
                again = ("rejected", type(x))
            log.active = False
            if S.symbolic:
                S.interp.call_hook = None
            S.check("a-refused-tag-is-refused-again", again[0] == "rejected")
            S.check("no-forbidden-call-while-decoding", log.bad == [])
        if text_tag is not None:
            S.check("double-underscore-tags-get-SecurityError", Implies("__" in text_tag, isinstance(exc, errors.SecurityError)))
        return
    # accepted: plain data (tag missing on the recreate paths) or an instance of the closed set, produced from one of its own tags
    if via == "recreate_classes-deeply-nested" and type(result) is dict and kind != "missing":
        S.check("a-class-tagged-dict-is-never-left-undecoded-at-any-depth", False)
        return
    if kind == "missing" and via.startswith("recreate"):
        S.cover("accepted:plain-data")
        S.check("untagged-dict-stays-data", type(result) is dict)
        return
    if via == "msgpack-object_hook" and kind == "missing":
        S.check("untagged-dict-stays-data", type(result) is dict)
        return
    if via == "serpent-dict_to_class" and type(result) is float:
        S.cover("accepted:serpent-float")
        S.check("serpent-float-special-case-needs-the-float-tag", text_tag is not None and eq(text_tag, "float"))
        return
    rt = type(result)
    S.cover("accepted:" + rt.__name__)
    S.check("result-class-is-in-the-closed-set", rt in ALLOWED)
    if rt in ALLOWED:
        S.check("tag-is-a-text", text_tag is not None)
        if text_tag is not None:
            S.check("class-produced-only-from-its-own-tags", Or(*[eq(text_tag, t) for t in ALLOWED[rt]]))
            S.check("no-double-underscore-tag-accepted", Not("__" in text_tag))
            if issubclass(rt, BaseException) and rt not in (struct.error,) and not issubclass(rt, errors.PyroError):
                S.check("exception-needs-the-exception-flag", flagkind != "absent" and (flagkind != "bool" or flag))
    S.observe("accepted", rt.__name__)


def h_ext_hook(S, B):
    code = S.int("code", -300, 300)
    data = S.choice("data", [b"", b"12", b"abc", struct.pack("dd", 1.0, 2.0), struct.pack("d", 0.0), struct.pack("l", 1)])
    exc = None
    result = None
    try:
        result = serializers.serializers["msgpack"].ext_hook(code, data)
    except Exception as x:
        exc = x
    S.cover("ext:" + ("rejected" if exc is not None else type(result).__name__))
    if exc is None:
        import datetime
        S.check("ext-types-are-data", type(result) in (complex, int, datetime.datetime, datetime.date))
        S.check("ext-code-is-known", Or(code == 0x30, code == 0x31, code == 0x32, code == 0x33))
    else:
        S.check("unknown-ext-code-is-SerializeError", Or(code == 0x30, code == 0x31, code == 0x32, code == 0x33, isinstance(exc, errors.SerializeError)))


NET = []          # every attempt to open a connection while decoding


def recording_create_socket(*a, **k):
    NET.append(("create_socket", k.get("connect")))
    raise ConnectionRefusedError(111, "connection refused (harness: no network while decoding)")


def _inner_objects():
    """what msgpack's object_hook has already built from the innermost dicts when it reaches the enclosing one"""
    p = client.Proxy.__new__(client.Proxy)
    p.__setstate__(("PYRO:victim@evil.example:9", (), (), (), "hello", None))
    u = core.URI("PYRO:o@h:1")
    d = server.Daemon.__new__(server.Daemon)
    return {"proxy": p, "uri": u, "daemon": d, "exception": ValueError("inner"), "wrapper": core._ExceptionWrapper(ValueError("w"))}


OUTER_TAGS = ["Pyro5.core.URI", "Pyro5.client.Proxy", "Pyro5.server.Daemon", "Pyro5.core._ExceptionWrapper", "builtins.ValueError",
              "Pyro5.errors.NamingError", "struct.error", "sqlite3.OperationalError", "OSError", "Pyro5.util.JsonSerializer"]
POSITIONS = ["args", "args-item", "attributes", "attribute-value", "state", "state-0", "state-1", "state-2", "state-3", "state-4",
             "exception", "__class__", "__exception__"]


def h_inner_first(S, B):
    """msgpack decodes bottom-up: when the hook sees a class-tagged dict, the dicts inside it have been replaced by the
    objects they denote.  Such an object may sit anywhere a plain value is expected; the decoder must treat it as a value (or
    refuse it) and never operate on it: a Proxy connects to the address it names when it is iterated, indexed or probed."""
    del NET[:]
    log = install_call_log(S)
    tag = S.choice("outer_tag", B["TAGS"])
    pos = S.choice("position", POSITIONS)
    inner_kind = S.choice("inner_object", ["proxy", "uri", "daemon", "exception", "wrapper"])
    inner = _inner_objects()[inner_kind]
    state = ["PYRO:o@h:1", (), ("m",), (), "hello", "serpent"] if tag == "Pyro5.client.Proxy" else (
        ["PYRO", "o", None, "h", 1] if tag == "Pyro5.core.URI" else [])
    data = {"__class__": tag, "__exception__": True, "args": ["msg"], "attributes": {"x": 1}, "state": state, "exception": ValueError("e")}
    if pos == "args":
        data["args"] = inner
    elif pos == "args-item":
        data["args"] = ["msg", inner]
    elif pos == "attributes":
        data["attributes"] = inner
    elif pos == "attribute-value":
        data["attributes"] = {"x": inner}
    elif pos == "state":
        data["state"] = inner
    elif pos.startswith("state-"):
        i = int(pos[6:])
        if i >= len(state):
            S.assume(False, "this class has no such state member")
        state[i] = inner
    elif pos == "exception":
        data["exception"] = inner
    else:
        data[pos] = inner
    result = exc = None
    log.active = True
    # (the interpreter runs generator functions such as Proxy.__iter__ natively: the recording stub is therefore also put
    # in place as the module attribute for the duration of the decode, so that natively running code reaches it as well)
    real_create_socket = socketutil.create_socket
    socketutil.create_socket = recording_create_socket
    try:
        result = serializers.serializers["msgpack"].object_hook(data) if S.flag("through_the_msgpack_hook") else serializers.SerializerBase.dict_to_class(data)
    except Exception as x:
        exc = x
    finally:
        socketutil.create_socket = real_create_socket
    log.active = False
    if S.symbolic:
        S.interp.call_hook = None
    S.cover("inner:" + ("rejected" if exc is not None else "accepted"))
    S.check("decoding-opens-no-connection", NET == [])
    S.check("no-forbidden-call-while-decoding", log.bad == [])
    if exc is None:
        S.check("result-class-is-in-the-closed-set", type(result) in ALLOWED)
    S.observe("outcome", type(exc).__name__ if exc is not None else type(result).__name__)


ASCII = [(0x20, 0x7E)]
STUBS = [(socketutil, "create_socket", recording_create_socket, "both")]

SPECS = [
    Spec("dict_to_class", h_dict_to_class,
         {"quick": {"L": 34, "LB": 14, "BUNDLES": [0, 1, 2], "VIA": ["dict_to_class", "recreate_classes-in-dict", "recreate_classes-deeply-nested"]},
          "thorough": {"L": 48, "LB": 20, "BUNDLES": [0, 1, 2, 3, 4, 5],
                       "VIA": ["dict_to_class", "recreate_classes-toplevel", "recreate_classes-in-list", "recreate_classes-in-dict",
                               "serpent-dict_to_class", "msgpack-object_hook"]}},
         covers=["accepted:URI", "accepted:Proxy", "accepted:Daemon", "accepted:_ExceptionWrapper", "accepted:ValueError",
                 "accepted:NamingError", "accepted:error", "rejected:SecurityError", "rejected:SerializeError",
                 "check:class-produced-only-from-its-own-tags"],
         native_patch=env.native_env,
         desc="class-tagged dict with a symbolic tag (string of any code points up to L, bytes up to LB, missing, non-string), five exception-flag values, hostile args/attributes/state/exception members, through dict_to_class and recreate_classes at top level / inside list / inside dict+tuple, serpent's and msgpack's hooks"),
    Spec("inner_objects_first", h_inner_first, {"quick": {"TAGS": OUTER_TAGS}, "thorough": {"TAGS": OUTER_TAGS}},
         covers=["inner:rejected", "inner:accepted", "check:decoding-opens-no-connection"], native_patch=env.native_env,
         desc="bottom-up decoding (msgpack): a class-tagged dict of ten tags whose args / attributes / state / state member / exception / tag member is an object the decoder has already built (a Proxy naming a foreign address, URI, Daemon placeholder, exception, wrapper): decoding never opens a connection, and yields the closed set or an error"),
    Spec("msgpack_ext_hook", h_ext_hook, {"quick": {}, "thorough": {}},
         covers=["ext:rejected", "ext:complex", "ext:int"], native_patch=env.native_env,
         desc="msgpack ext_hook with a symbolic ext code and data from a list"),
]
