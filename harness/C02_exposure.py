"""C02 -- only explicitly exposed, non-private members are remotely reachable.

Real code executed symbolically: server.Daemon.handleRequest (all dispatch branches), _get_attribute,
_get_exposed_property_value, _set_exposed_property_value, is_private_attribute, _get_exposed_members /
DaemonObject.get_metadata, _OnewayCallThread, protocol.recv_stub / SendingMessage / ReceivingMessage.
The member name in the request is a symbolic string (any code points) or a non-string value."""
from Pyro5 import protocol, errors, server, config, core
from Pyro5.server import expose, oneway
from pysym.runner import Spec
from pysym.api import And, Or, Not, Implies, eq
from pysym import env
from harness import rig

LOG = []


def log(tag):
    LOG.append(tag)


# ------------------------------------------------------------------------------------------------
# target class shapes; every member logs its own tag


@expose
class Helper:
    """an exposed class used as a plain helper attribute of the targets"""

    def ping(self):
        log("Helper.ping")
        return "pong"


@expose
class CallableHelper:
    def __call__(self, *a, **k):
        log("CallableHelper.__call__")
        return "called"


class Journal:
    """not exposed; referenced by plain class attributes of the targets"""

    def __init__(self, *a, **k):
        log("Journal.__init__")


class Auditor:
    """not exposed; a callable helper object held in a plain class attribute"""

    def __call__(self, *a, **k):
        log("Auditor.__call__")
        return "audit"


class Base:
    base_plain = 11

    def bunexposed(self, *a, **k):
        log("bunexposed")
        return 1

    @expose
    def base_exposed(self, *a, **k):
        log("base_exposed")
        return 2

    @property
    def bhidden(self):
        log("bhidden.get")
        return 3

    @bhidden.setter
    def bhidden(self, v):
        log("bhidden.set")
        self.state = v

    @expose
    @property
    def base_prop(self):
        log("base_prop.get")
        return 4

    @base_prop.setter
    def base_prop(self, v):
        log("base_prop.set")
        self.state = v


class PerMember(Base):
    """exposure per member"""
    plain = 42

    def __init__(self):
        self.state = 0
        self.inst = 7
        self.helper = Helper()
        self.chelper = CallableHelper()

    @expose
    def m(self, *a, **k):
        log("m")
        return 5

    def unexposed(self, *a, **k):
        log("unexposed")
        return 6

    def _private(self, *a, **k):
        log("_private")
        return 7

    @expose
    def __len__(self):
        log("__len__")
        return 3

    @staticmethod
    @expose
    def sm(*a, **k):
        log("sm")
        return 8

    @staticmethod
    def sm_unexposed(*a, **k):
        log("sm_unexposed")
        return 9

    @classmethod
    @expose
    def cm(cls, *a, **k):
        log("cm")
        return 10

    @oneway
    @expose
    def ow(self, *a, **k):
        log("ow")
        return 11

    @expose
    @property
    def ro(self):
        log("ro.get")
        return 12

    @property
    def hidden(self):
        log("hidden.get")
        return 13

    @hidden.setter
    def hidden(self, v):
        log("hidden.set")
        self.state = v

    # only the setter function carries the mark: the property is neither advertised nor readable, so it is not writable
    @property
    def valve(self):
        log("valve.get")
        return 15

    @valve.setter
    @expose
    def valve(self, v):
        log("valve.set")
        self.state = v


PerMember._private._pyroExposed = True       # even a (wrongly) marked private member must stay unreachable


def _all_underscores(self, *a, **k):
    log("____")
    return 14


_all_underscores._pyroExposed = True
setattr(PerMember, "____", _all_underscores)    # a name of underscores only has a leading underscore: private


@expose
class WholeClass(Base):
    """the class itself is exposed: its own members, not the inherited unexposed ones"""
    plain = 43
    journal_cls = Journal        # plain class attributes whose values happen to be callable: a class reference ...
    audit = Auditor()            # ... and a callable helper object; neither is a method or property of the class

    def __init__(self):
        self.state = 0
        self.inst = 8
        self.helper = Helper()

    def w(self, *a, **k):
        log("w")
        return 21

    def _wprivate(self, *a, **k):
        log("_wprivate")
        return 22

    @property
    def wprop(self):
        log("wprop.get")
        return 23

    @wprop.setter
    def wprop(self, v):
        log("wprop.set")
        self.state = v

    @oneway
    def wow(self, *a, **k):
        log("wow")

    def ____(self, *a, **k):              # underscores only: private, class-level @expose must skip it
        log("W.____")
        return 24

    def __(self, *a, **k):
        log("W.__")
        return 25

    @property
    def ___(self):
        log("W.___")
        return 26


class SubOfWhole(WholeClass):
    """not exposed itself; replaces the getter of an inherited exposed property by its own (unmarked) one: the property
    object in this class has an unexposed getter and the base's marked setter -> not advertised, not readable, not writable"""

    @WholeClass.wprop.getter
    def wprop(self):
        log("sub.wprop.get")
        return 27

    def subm(self, *a, **k):
        log("subm")
        return 28


class NotExposed(Base):
    def __init__(self):
        self.state = 0

    def n(self, *a, **k):
        log("n")
        return 31

    @property
    def nprop(self):
        log("nprop.get")
        return 32


# what the statement says is reachable: name -> log tag, per request kind
SHAPES = {
    "PerMember": (PerMember, {
        "call": {"m": "m", "__len__": "__len__", "sm": "sm", "cm": "cm", "ow": "ow", "base_exposed": "base_exposed"},
        "get": {"ro": "ro.get", "base_prop": "base_prop.get"},
        "set": {"base_prop": "base_prop.set"},
        "oneway": {"ow"}}),
    "WholeClass": (WholeClass, {
        "call": {"w": "w", "wow": "wow", "base_exposed": "base_exposed"},
        "get": {"wprop": "wprop.get", "base_prop": "base_prop.get"},
        "set": {"wprop": "wprop.set", "base_prop": "base_prop.set"},
        "oneway": {"wow"}}),
    "SubOfWhole": (SubOfWhole, {
        "call": {"w": "w", "wow": "wow", "base_exposed": "base_exposed"},
        "get": {"base_prop": "base_prop.get"},
        "set": {"base_prop": "base_prop.set"},
        "oneway": {"wow"}}),
    "NotExposed": (NotExposed, {
        "call": {"base_exposed": "base_exposed"},
        "get": {"base_prop": "base_prop.get"},
        "set": {"base_prop": "base_prop.set"},
        "oneway": set()}),
}

UNEXPOSED_PROPERTIES = {"PerMember": ["hidden", "bhidden", "valve"], "WholeClass": ["bhidden"], "SubOfWhole": ["bhidden", "wprop"],
                        "NotExposed": ["nprop", "bhidden"]}
NONSTRING_NAMES = [None, 5, b"m", ("m",), 1.5]
KINDS = ["call", "batch", "oneway", "get", "set"]


@expose
def twin_member(self):
    return "twin"


def in_names(name, names):
    return Or(*[eq(name, n) for n in names]) if names else False


def h_request(S, B):
    rig.reset(S)
    del LOG[:]
    shape = S.choice("shape", B["SHAPES"])
    cls, table = SHAPES[shape]
    # vacuity guard: every member name of the shape must fit the bound on the symbolic name
    too_long = [n for n in dir(cls()) if not (n.startswith("__") and n.endswith("__") and n not in ("__len__",)) and len(n) > B["L"]]
    if too_long:
        raise RuntimeError("harness: member names longer than the name bound L=%d: %s" % (B["L"], too_long))
    kind = S.choice("kind", KINDS)
    if S.flag("name_is_string"):
        name = S.str("name", B["L"])
    else:
        name = S.choice("nonstring_name", NONSTRING_NAMES)
    extra_flags = S.int("extra_flags", 0, 65535)
    seq = S.int("seq", 0, 65535)
    ser = S.choice("serializer_id", [1, 2, 3, 4])
    # the request-kind bits are set by the harness, the remaining flag bits are arbitrary
    flags = extra_flags & ~(protocol.FLAGS_ONEWAY | protocol.FLAGS_BATCH | protocol.FLAGS_COMPRESSED | protocol.FLAGS_KEEPSERIALIZED)
    if kind == "oneway":
        flags = flags | protocol.FLAGS_ONEWAY
    if kind == "batch":
        flags = flags | protocol.FLAGS_BATCH
        if S.flag("batch_oneway"):
            flags = flags | protocol.FLAGS_ONEWAY
    is_oneway = (flags & protocol.FLAGS_ONEWAY) != 0
    if kind == "batch":
        call = ("obj", "<batch>", [(name, (), {})], {})
    elif kind == "get":
        call = ("obj", "__getattr__", (name,), {})
    elif kind == "set":
        call = ("obj", "__setattr__", (name, 99), {})
    else:
        call = ("obj", name, (), {})
    target = cls()
    # an unrelated class that merely has the same module and qualified name (built by a factory, say) was asked for
    # its member list earlier: what the daemon advertises for the target must not depend on that
    twin = type(cls.__name__, (object,), {"__module__": cls.__module__, "__qualname__": cls.__qualname__, "twin_only": twin_member})
    server._get_exposed_members(twin())
    sock = rig.FakeSock("A")
    daemon = rig.make_daemon()
    daemon.objectsById["obj"] = target
    conn = rig.connection(sock)
    sock.queue(rig.build_message(protocol.MSG_INVOKE, flags, seq, ser, call))
    escaped = None
    try:
        daemon.handleRequest(conn)
    except Exception as x:
        escaped = x
    rig.run_pending_threads()
    S.check("handleRequest-contains-errors", escaped is None)
    replies = rig.parse_sent(sock)
    allowed = table["get" if kind == "get" else ("set" if kind == "set" else "call")]
    # --- oracle ----------------------------------------------------------------------------------
    S.check("at-most-one-member-ran", len(LOG) <= 1)
    call_like = kind in ("call", "batch", "oneway")
    unexposed_props = [n for n in UNEXPOSED_PROPERTIES[shape]]
    S.known("C02-unexposed-property-getter-runs-when-its-name-is-called",
            And(call_like, in_names(name, unexposed_props)), checks=["only-exposed-members-run", "refusal-has-no-effect", "served-implies-advertised"])
    S.known("C02-plain-attribute-holding-instance-of-exposed-callable-class-is-invoked",
            And(call_like, eq(name, "chelper")), checks=["only-exposed-members-run", "exposed-member-is-served", "served-implies-advertised"])
    getter_ran_for_call = False
    for tag in LOG:
        S.cover("ran")
        # the member that ran is the one the name denotes, and it is exposed for this request kind
        names_for_tag = [n for n in allowed if allowed[n] == tag]
        if call_like:
            # calling the name of an exposed property evaluates that property (then the call is refused):
            # the statement allows code of an explicitly exposed property to run
            getter_names = [n for n in table["get"] if table["get"][n] == tag]
            if getter_names:
                getter_ran_for_call = True
            names_for_tag = names_for_tag + getter_names
        S.check("only-exposed-members-run", in_names(name, names_for_tag))
    served = len(LOG) == 1 and not getter_ran_for_call
    denotes_allowed = in_names(name, list(allowed.keys()))
    if not served:
        S.cover("refused")
        S.check("exposed-member-is-served", Not(denotes_allowed))
        S.check("refusal-has-no-effect", target.state == 0)
        if is_oneway:
            S.check("oneway-refusal-sends-nothing", len(replies) == 0)
        else:
            S.check("refusal-is-one-error-reply", len(replies) == 1)
            if len(replies) == 1:
                is_error = (replies[0].flags & protocol.FLAGS_EXCEPTION) != 0
                if kind == "batch" and not is_error:
                    # a refused batch member may also be reported at its position inside the batch result
                    items = rig.reply_value(replies[0])
                    is_error = (replies[0].flags & protocol.FLAGS_BATCH) != 0 and isinstance(items, list) and len(items) == 1 \
                        and isinstance(items[0], core._ExceptionWrapper) and isinstance(items[0].exception, AttributeError)
                S.check("refusal-reply-flags", And(is_error, replies[0].seq == seq, replies[0].type == protocol.MSG_RESULT))
    else:
        S.cover("served:" + kind)
        if is_oneway:
            S.check("oneway-sends-nothing", len(replies) == 0)
        else:
            S.check("served-one-reply", len(replies) == 1)
            if len(replies) == 1:
                S.check("served-reply", And(replies[0].seq == seq, replies[0].type == protocol.MSG_RESULT))
    # the advertised member list is exactly what is served
    meta = daemon.objectsById["Pyro.Daemon"].get_metadata("obj")
    S.check("metadata-methods", set(meta["methods"]) == set(table["call"].keys()))
    S.check("metadata-attrs", set(meta["attrs"]) == set(table["get"].keys()) | set(table["set"].keys()))
    S.check("metadata-oneway", set(meta["oneway"]) == set(table["oneway"]))
    advertised = list(meta["methods"]) + list(meta["attrs"])
    S.check("served-implies-advertised", Implies(served, in_names(name, advertised)))
    S.observe("log", list(LOG))
    S.observe("replies", len(replies))


def _reset():
    from pysym.runner import default_reset
    default_reset()
    del LOG[:]


# the private-name rule of the statement, written independently of the code: a leading underscore makes a name private,
# except proper dunder names (two underscores, a non-empty core, two underscores); the reserved dunder names are
# private as well.  The reserved list is the documented one at the pinned commit.
RESERVED = ["__init__", "__init_subclass__", "__class__", "__module__", "__weakref__", "__call__", "__new__", "__del__",
            "__repr__", "__str__", "__format__", "__nonzero__", "__bool__", "__coerce__", "__cmp__", "__eq__", "__ne__",
            "__hash__", "__ge__", "__gt__", "__le__", "__lt__", "__dir__", "__enter__", "__exit__", "__copy__",
            "__deepcopy__", "__sizeof__", "__getattr__", "__setattr__", "__hasattr__", "__getattribute__", "__delattr__",
            "__instancecheck__", "__subclasscheck__", "__getinitargs__", "__getnewargs__", "__getstate__", "__setstate__",
            "__reduce__", "__reduce_ex__", "__subclasshook__"]


def ref_private(name):
    if name in RESERVED:
        return True
    if len(name) == 0 or name[0] != "_":
        return False
    if len(name) >= 5 and name.startswith("__") and name.endswith("__"):
        return False          # a proper dunder name: non-empty core between the double underscores
    return True


def h_predicate(S, B):
    name = S.str("name", B["L"])
    got = bool(server.is_private_attribute(name))
    want = bool(ref_private(name))
    S.check("private-name-predicate-matches-the-rule", got == want)
    S.cover("private" if got else "public")
    S.observe("private", got)


INTERPRET_MODULES = ["harness.rig"]
STUBS = rig.STUBS

SPECS = [
    Spec("predicate", h_predicate, {"quick": {"L": 18}, "thorough": {"L": 24}},
         covers=["private", "public", "check:private-name-predicate-matches-the-rule"],
         native_patch=env.native_env, reset=_reset,
         desc="is_private_attribute on a symbolic name (any code points, length 0..L) against the rule of the statement: leading underscore unless a proper dunder name (non-empty core), plus the reserved dunder list"),
    Spec("request", h_request,
         {"quick": {"L": 12, "SHAPES": ["PerMember", "WholeClass", "SubOfWhole", "NotExposed"]},
          "thorough": {"L": 20, "SHAPES": ["PerMember", "WholeClass", "SubOfWhole", "NotExposed"]}},
         covers=["ran", "refused", "served:call", "served:batch", "served:oneway", "served:get", "served:set",
                 "check:only-exposed-members-run", "check:refusal-is-one-error-reply"],
         native_patch=env.native_env, reset=_reset,
         desc="one INVOKE request with a symbolic member name (any code points, or a non-string) against four class shapes (per-member exposure, class-level exposure with plain callable class attributes, an unexposed subclass re-using an exposed property's setter, no exposure), five request kinds, arbitrary other flag bits, through the real handleRequest"),
]
