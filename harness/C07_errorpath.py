"""C07 (error path) -- a failing remote call reaches the caller as an exception, whatever the call kind, also when the
exception cannot be serialised; the proxy stays usable.

Real code executed symbolically: server.Daemon.handleRequest except-path, _sendExceptionResponse (incl. the fallback
when the exception cannot be serialised), _streamResponse / get_next_stream_item, client.Proxy._pyroInvoke flag
handling, BatchProxy result generator and the stream iterator, over the loopback of harness/rig.py (codec boundary
stubbed: payload token <-> python value; a value containing an Unserialisable marker makes dumps raise)."""
from Pyro5 import serializers, errors, config, client, core, protocol, server
from Pyro5.server import expose
from pysym.runner import Spec
from pysym.api import And, Or, Not, Implies, eq
from pysym import env
from harness import rig


# ------------------------------------------------------------------------------------------------
class Strange(Exception):
    """not known to the receiver"""


@expose
class Target:
    mode = "serialisable"
    exc_class = ValueError

    def _boom(self):
        if Target.mode == "serialisable":
            e = Target.exc_class("bad", 7)
            e.extra = "x"
            raise e
        if Target.mode == "unserialisable-attribute":
            e = KeyError("k")
            e.handle = rig.Unserialisable("lock")
            raise e
        if Target.mode == "unserialisable-arg":
            raise RuntimeError(rig.Unserialisable("arg"))
        raise Strange("unknown class")

    def fail(self):
        self._boom()

    @property
    def prop(self):
        self._boom()

    def stream(self):
        return StreamOf(self)

    def ok(self):
        return "fine"


class StreamOf:
    def __init__(self, target):
        self.target = target
        self.n = 0

    def __iter__(self):
        return self

    def __next__(self):
        self.n += 1
        if self.n == 1:
            return 1
        self.target._boom()


KINDS = ["call", "attribute", "batch", "stream"]
# builtin classes incl. the ones the daemon's own gates raise, the OSError / ConnectionError family (which the transport
# layers also use for their own failures), and Pyro errors incl. the communication-error family
EXC_CLASSES = [ValueError, AttributeError, KeyError, LookupError, TypeError, OSError, PermissionError, ConnectionResetError,
               BrokenPipeError, errors.NamingError, errors.TimeoutError, errors.ConnectionClosedError, errors.SecurityError]
MODES = ["serialisable", "unserialisable-attribute", "unserialisable-arg"]


def h_error_path(S, B):
    rig.reset(S)
    config.ITER_STREAMING = True
    Target.mode = S.choice("what_the_method_raises", MODES)
    # the classes the daemon's own gates raise (AttributeError for refusals, KeyError/LookupError for lookups) included:
    # a method's or getter's own exception of such a class must arrive as raised, not be taken for a refusal
    Target.exc_class = S.choice("exception_class", EXC_CLASSES) if Target.mode == "serialisable" else ValueError
    kind = S.choice("call_kind", KINDS)
    sername = S.choice("serializer", ["serpent", "json", "marshal", "msgpack"])
    config.SERIALIZER = sername
    daemon = rig.make_daemon()
    daemon.objectsById["obj"] = Target()
    p, sock = rig.make_proxy(daemon, "obj", {"fail", "stream", "ok"}, (), {"prop"})
    raised = None
    value = None
    try:
        if kind == "call":
            value = p._pyroInvoke("fail", (), {})
        elif kind == "attribute":
            value = p._pyroInvoke("__getattr__", ("prop",), {})
        elif kind == "batch":
            b = client.BatchProxy(p)
            b.ok()
            b.fail()
            res = b()
            value = [next(res)]
            value.append(next(res))
        else:
            it = p._pyroInvoke("stream", (), {})
            value = [next(it)]
            value.append(next(it))
    except Exception as x:
        raised = x
    S.cover("error-path:" + kind)
    S.check("the-failure-is-raised-not-returned", raised is not None)
    if raised is None:
        return
    if Target.mode == "serialisable":
        S.check("same-class-as-raised-remotely", type(raised) is Target.exc_class)
        S.check("same-args", raised.args == ("bad", 7))
        S.check("same-attributes", getattr(raised, "extra", None) == "x")
        S.check("carries-remote-traceback", getattr(raised, "_pyroTraceback", None) is not None)
    else:
        S.check("unserialisable-failure-arrives-as-PyroError", isinstance(raised, (errors.PyroError, KeyError, RuntimeError, TypeError)))
    # every reply to a failing request carries the exception flag (so that the client raises instead of returning)
    replies = rig.parse_sent(sock.server_sock)
    failing = [r for r in replies if S.must((r.flags & protocol.FLAGS_EXCEPTION) != 0)]
    if kind in ("call", "attribute", "stream"):
        S.check("error-reply-has-the-exception-flag", len(failing) >= 1)
    # the proxy stays usable
    again = None
    try:
        again = p._pyroInvoke("ok", (), {})
    except errors.CommunicationError as x:
        again = x
        if Target.mode == "serialisable" and Target.exc_class is errors.SecurityError:
            # the daemon deliberately ends a connection on which a SecurityError occurred (after reporting it): the next
            # call finds the connection gone, the one after it is served on a new connection
            S.cover("security-error-ends-the-connection")
            try:
                again = p._pyroInvoke("ok", (), {})
            except Exception as x2:
                again = x2
    except Exception as x:
        again = x
    S.check("proxy-usable-for-the-next-call", again == "fine")
    S.observe("raised", type(raised).__name__)




def _reset():
    from pysym.runner import default_reset
    default_reset()
    Target.mode = "serialisable"
    Target.exc_class = ValueError


INTERPRET_MODULES = ["harness.rig"]
STUBS = rig.STUBS

SPECS = [
    Spec("error_path", h_error_path, {"quick": {}, "thorough": {}},
         covers=["error-path:call", "error-path:attribute", "error-path:batch", "error-path:stream",
                 "check:the-failure-is-raised-not-returned", "check:proxy-usable-for-the-next-call"],
         native_patch=env.native_env, reset=_reset,
         desc="a remote method raising a serialisable exception, an exception with an unserialisable attribute or argument, as plain call / attribute read / batch member / stream item, under each serializer id, through the real daemon and proxy over the loopback"),
]
