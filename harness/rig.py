"""Daemon test rig shared by the request-level harnesses (P-req / P-step patterns of DESIGN.md section 3).

* FakeSock: scripted socket under a real socketutil.SocketConnection (recv/send go through the real
  receive_data/send_data)
* Codec: stands in for the four third-party codecs at the dumps/loads boundary: a payload is an opaque
  8-byte token that maps to the (possibly symbolic) python value it carries
* uuid / thread / traceback stubs
Everything here runs in both modes (interpreted with symbolic values, or natively in a replay)."""
import errno
import socket
import threading
import uuid

from Pyro5 import protocol, serializers, socketutil, errors, server, config, core
from Pyro5.callcontext import current_context

PAYLOAD_LEN = 8


class Rig:
    """per-path mutable state"""

    def __init__(self):
        self.S = None
        self.codec_n = 0
        self.values = {}          # stream name -> python value carried by that payload
        self.uuid_n = 0
        self.pending_threads = []
        self.dumps_fail = None    # optional predicate(value) -> exception or None
        self.loads_fail = {}      # stream name -> exception instance to raise when decoded
        self.log = []
        self.thread_errors = []
        self.daemon = None        # the daemon new client connections reach (fake_create_socket)
        self.connections = 0
        self.client_socks = []


RIG = Rig()


def reset(S):
    import gc
    # finalizers of objects left over from an earlier path (proxies, stream iterators) must not reach this
    # path's daemon: flush them while no daemon is reachable
    RIG.__init__()
    gc.collect()
    RIG.__init__()
    RIG.S = S


# ------------------------------------------------------------------------------------------------
# sockets

class Hang(BaseException):
    """the thread would block forever in a socket call (no timeout set on that socket)"""


class FakeSock:
    family = socket.AF_INET

    def __init__(self, name="A", peer=("10.0.0.1", 1111), at_end="eof"):
        self.name = name
        self.peer = peer
        self.inbox = []
        self.cur = None
        self.pos = 0
        self.at_end = at_end      # what happens when the inbox is exhausted: eof | timeout | reset
        self.sent = []
        self.closed = 0
        self.shutdowns = 0
        self.timeout = None
        self.send_fault = None    # None | "reset" | "timeout" : applies to every send from now on
        self.recv_calls = 0
        self.consumed = 0
        self.shutdown_fails = False   # peer reset: shutdown() raises ENOTCONN

    def queue(self, data):
        self.inbox.append(data)

    def getpeername(self):
        return self.peer

    def getsockname(self):
        return ("127.0.0.1", 9999)

    def gettimeout(self):
        return self.timeout

    def settimeout(self, t):
        self.timeout = t

    def setblocking(self, b):
        pass

    def fileno(self):
        return 1000 + ord(self.name[0])

    def recv(self, n, flags=0):
        self.recv_calls += 1
        if self.closed:
            raise OSError(errno.EBADF, "socket is closed")
        if self.cur is None or self.pos >= len(self.cur):
            if not self.inbox:
                if self.at_end == "eof":
                    return b""
                if self.at_end == "timeout":
                    raise socket.timeout("timed out")
                if self.at_end == "stall":
                    # the peer keeps the connection open and sends nothing more
                    if self.timeout is None:
                        raise Hang()
                    raise socket.timeout("timed out")
                raise ConnectionResetError(errno.ECONNRESET, "connection reset by peer")
            self.cur = self.inbox.pop(0)
            self.pos = 0
        k = len(self.cur) - self.pos
        if n < k:
            k = n
        chunk = self.cur[self.pos:self.pos + k]
        self.pos += k
        self.consumed += k
        return chunk

    def _send_check(self):
        if self.closed:
            raise OSError(errno.EBADF, "socket is closed")
        if self.send_fault == "reset":
            raise ConnectionResetError(errno.ECONNRESET, "connection reset by peer")
        if self.send_fault == "timeout":
            raise socket.timeout("timed out")

    def sendall(self, data):
        self._send_check()
        self.sent.append(data)

    def send(self, data):
        self._send_check()
        self.sent.append(data)
        return len(data)

    def shutdown(self, how):
        self.shutdowns += 1
        if self.shutdown_fails:
            raise OSError(errno.ENOTCONN, "transport endpoint is not connected")

    def close(self):
        self.closed += 1


def connection(sock):
    return socketutil.SocketConnection(sock)


def symset(items):
    """a set that can also hold symbolic members (plain set in a native replay)"""
    if RIG.S is not None and RIG.S.symbolic:
        from pysym.containers import SymSet
        return SymSet(items)
    return set(items)


class LoopbackSock(FakeSock):
    """client-side socket wired to a daemon: every request written to it is served synchronously by the real
    Daemon.handleRequest on the server-side connection, and the reply bytes appear in this socket's inbox"""

    def __init__(self, daemon, name="cli"):
        FakeSock.__init__(self, name, ("127.0.0.1", 9999))
        self.daemon = daemon
        self.server_sock = FakeSock(name + "-srv", ("10.0.0.9", 999))
        self.server_conn = socketutil.SocketConnection(self.server_sock)
        self.server_alive = True
        self.requests = 0
        self.handshaken = True     # make_proxy constructs the connected state directly
        self.server_on_own_thread = False   # True: the daemon serves on a helper thread (own thread-locals, like a real server)

    def _serve(self):
        if not self.handshaken:
            if self.daemon._handshake(self.server_conn):
                self.handshaken = True
            else:
                self.server_alive = False
                self.server_conn.close()
        else:
            self.daemon.handleRequest(self.server_conn)

    def sendall(self, data):
        self._send_check()
        self.sent.append(data)
        self.requests += 1
        if not self.server_alive:
            return
        self.server_sock.queue(data)
        n = len(self.server_sock.sent)
        try:
            if self.server_on_own_thread:
                RIG.S.run_in_thread(self._serve)
            else:
                self._serve()
        except Exception as x:
            # the server layer would drop the connection
            self.server_alive = False
            self.server_conn.close()
        for reply in self.server_sock.sent[n:]:
            self.inbox.append(reply)

    def send(self, data):
        self.sendall(data)
        return len(data)


def fake_create_socket(bind=None, connect=None, reuseaddr=False, keepalive=True, timeout=-1, noinherit=False,
                       ipv6=False, nodelay=True, sslContext=None):
    """a new client connection to the rig's daemon (the server side will expect a handshake first)"""
    if RIG.daemon is None or connect is None:
        raise ConnectionRefusedError(errno.ECONNREFUSED, "connection refused")
    RIG.connections += 1
    s = LoopbackSock(RIG.daemon, "cli%d" % RIG.connections)
    s.handshaken = False
    if timeout != -1:
        s.timeout = timeout
    RIG.client_socks.append(s)
    return s


def make_proxy(daemon, objectId="obj", methods=(), oneway=(), attrs=()):
    """a real client.Proxy connected through a LoopbackSock (no handshake: state constructed directly)"""
    from Pyro5 import client
    p = client.Proxy("PYRO:%s@localhost:9999" % objectId)
    RIG.daemon = daemon
    sock = LoopbackSock(daemon)
    conn = socketutil.SocketConnection(sock, objectId)
    p._pyroConnection = conn
    p._pyroMethods = set(methods)
    p._pyroOneway = set(oneway)
    p._pyroAttrs = set(attrs)
    return p, sock


# ------------------------------------------------------------------------------------------------
# codec boundary

class Unserialisable:
    """a value no serializer can dump"""

    def __init__(self, tag="u"):
        self.tag = tag


class RaiseOnDecode:
    def __init__(self, exc):
        self.exc = exc


def new_payload(value, tag="p"):
    """opaque payload carrying `value`"""
    RIG.codec_n += 1
    name = "%s%d" % (tag, RIG.codec_n)
    RIG.values[name] = value
    return RIG.S.stream_piece(name, 0, PAYLOAD_LEN)


def payload_value(data):
    """inverse of new_payload; raises ProtocolError for bytes that are not a rig payload"""
    name = RIG.S.stream_name(data, PAYLOAD_LEN)
    if name is None or name not in RIG.values:
        raise errors.SerializeError("undecodable payload")
    v = RIG.values[name]
    if isinstance(v, RaiseOnDecode):
        raise v.exc
    return v


def contains_unserialisable(v, depth=0):
    if isinstance(v, Unserialisable):
        return True
    if depth > 4:
        return False
    if isinstance(v, (list, tuple)):
        for x in v:
            if contains_unserialisable(x, depth + 1):
                return True
    if isinstance(v, dict):
        for x in v.values():
            if contains_unserialisable(x, depth + 1):
                return True
    if isinstance(v, BaseException):
        if contains_unserialisable(v.args, depth + 1):
            return True
        d = getattr(v, "__dict__", None)
        if d and contains_unserialisable(dict(d), depth + 1):
            return True
    if isinstance(v, core._ExceptionWrapper):
        return contains_unserialisable(v.exception, depth + 1)
    return False


def stub_dumps(self, data):
    if contains_unserialisable(data):
        raise TypeError("don't know how to serialize class Unserialisable")
    return new_payload(data, "out")


def stub_dumpsCall(self, obj, method, vargs, kwargs):
    v = (obj, method, vargs, kwargs)
    if contains_unserialisable(vargs) or contains_unserialisable(kwargs):
        raise TypeError("don't know how to serialize class Unserialisable")
    return new_payload(v, "call")


def stub_loads(self, data):
    return payload_value(data)


def stub_loadsCall(self, data):
    v = payload_value(data)
    if not isinstance(v, tuple) or len(v) != 4:
        raise errors.SerializeError("payload is not a call")
    return v


# ------------------------------------------------------------------------------------------------
# uuid / threads / tracebacks

class FakeUUID:
    def __init__(self, hex=None, bytes=None, int=None):
        if bytes is None:
            bytes = (int or 0).to_bytes(16, "big")
        self.bytes = bytes
        self.int = int

    @property
    def hex(self):
        return "%032x" % (self.int or 0)

    def __str__(self):
        return "uuid-%d" % (self.int or 0)

    def __repr__(self):
        return "FakeUUID(%r)" % (self.int,)

    def __eq__(self, other):
        return isinstance(other, FakeUUID) and other.int == self.int and self.int is not None

    def __hash__(self):
        return hash(self.int)


def fake_uuid4():
    RIG.uuid_n += 1
    return FakeUUID(int=RIG.uuid_n)


def thread_start(self):
    """threads are not started: the harness decides when their body runs (run_pending_threads)"""
    RIG.pending_threads.append(self)


def thread_run_body(self):
    if self._target is not None:
        self._target(*self._args, **self._kwargs)


def fake_format_traceback(*args, **kwargs):
    return ["<traceback>\n"]


def run_pending_threads():
    """run every postponed thread body to completion on a real helper thread (so thread-locals are its own)"""
    S = RIG.S
    while RIG.pending_threads:
        th = RIG.pending_threads.pop(0)
        try:
            S.run_in_thread(th.run)
        except Exception as x:
            # like threading's excepthook: an exception ends that thread only
            RIG.thread_errors.append(x)


# ------------------------------------------------------------------------------------------------
# requests and replies

def build_message(msgtype, flags, seq, serializer_id, value, annotations=None, corr=None, tag="req"):
    """wire bytes of one message whose payload carries `value`"""
    current_context.correlation_id = corr
    payload = new_payload(value, tag)
    msg = protocol.SendingMessage(msgtype, flags, seq, serializer_id, payload, annotations)
    current_context.correlation_id = None
    return msg.data


def parse_sent(sock):
    """decode everything the daemon wrote to `sock` with the real ReceivingMessage"""
    out = []
    for data in sock.sent:
        header = data[:protocol._header_size]
        body = data[protocol._header_size:]
        out.append(protocol.ReceivingMessage(header, body))
    return out


def reply_value(msg):
    return payload_value(msg.data)


def make_daemon(sock=None):
    """a real Daemon without network: built on a pre-connected fake socket"""
    d = server.Daemon(connected_socket=sock or FakeSock("D"))
    return d


# stubs: (owner, attribute, replacement, modes)
def _serializer_stubs():
    out = []
    for cls in (serializers.SerpentSerializer, serializers.MarshalSerializer, serializers.JsonSerializer,
                serializers.MsgpackSerializer):
        out.append((cls, "dumps", stub_dumps, "both"))
        out.append((cls, "dumpsCall", stub_dumpsCall, "both"))
        out.append((cls, "loads", stub_loads, "both"))
        out.append((cls, "loadsCall", stub_loadsCall, "both"))
    return out


STUBS = _serializer_stubs() + [
    (uuid, "uuid4", fake_uuid4, "both"),
    (uuid, "UUID", FakeUUID, "both"),
    (server._OnewayCallThread, "start", thread_start, "both"),
    (threading.Thread, "run", thread_run_body, "symbolic"),
    (errors, "format_traceback", fake_format_traceback, "both"),
    (socketutil, "create_socket", fake_create_socket, "both"),
]
