"""C09 (sequential part) -- instance modes: one per daemon, one per connection, or one per call.

Real code executed symbolically: server.Daemon._getInstance (+ inner createInstance), server.behavior,
socketutil.SocketConnection.close.  One step from an arbitrary pre-state of the daemon-wide and per-connection
instance tables; the instances' truthiness is symbolic (their __len__/__bool__ return solver values)."""
from Pyro5 import errors, server, config
from Pyro5.server import expose, behavior
from pysym.runner import Spec
from pysym.api import And, Or, Not, Implies, eq
from pysym import env
from harness import rig

CREATED = []
CREATOR_CALLS = []


class Plain:
    def __init__(self):
        CREATED.append(self)


class Sized:
    """container-like: truthiness through __len__"""
    length = 1

    def __init__(self):
        CREATED.append(self)

    def __len__(self):
        return Sized.length


class Booled:
    truth = True

    def __init__(self):
        CREATED.append(self)

    def __bool__(self):
        return Booled.truth


class AllEqual:
    """custom equality/hash: every instance compares equal to every other"""

    def __init__(self):
        CREATED.append(self)

    def __eq__(self, other):
        return isinstance(other, AllEqual)

    def __hash__(self):
        return 7


class EqualsAnything:
    """a wildcard object: compares equal to whatever it is compared with, None and sentinels included"""

    def __init__(self):
        CREATED.append(self)

    def __eq__(self, other):
        return True

    def __ne__(self, other):
        return False

    def __hash__(self):
        return 11


SHAPES = {"Plain": Plain, "Sized": Sized, "Booled": Booled, "AllEqual": AllEqual, "EqualsAnything": EqualsAnything}
MODES = ["single", "session", "percall", "bogus"]
CREATORS = ["none", "makes-instance", "returns-wrong-type", "raises"]


def h_get_instance(S, B):
    rig.reset(S)
    del CREATED[:]
    del CREATOR_CALLS[:]
    shape = S.choice("shape", B["SHAPES"])
    base = SHAPES[shape]
    mode = S.choice("mode", MODES)
    creator_kind = S.choice("creator", CREATORS)
    if shape == "Sized":
        Sized.length = S.int("len_of_instances", 0, 3)
    if shape == "Booled":
        Booled.truth = S.bool("truth_of_instances")

    # a fresh subclass per path so that class-level marks do not leak between paths
    class Clazz(base):
        pass

    def creator(c):
        CREATOR_CALLS.append(c)
        if creator_kind == "makes-instance":
            return c()
        if creator_kind == "returns-wrong-type":
            return object()
        raise RuntimeError("creator failed")
    Clazz._pyroInstancing = (mode, None if creator_kind == "none" else creator)
    daemon = rig.make_daemon()
    sockA = rig.FakeSock("A")
    sockB = rig.FakeSock("B")
    connA = rig.connection(sockA)
    connB = rig.connection(sockB)
    have_single = S.flag("daemon_already_has_instance")
    have_sessionA = S.flag("connectionA_already_has_instance")
    existing_single = existing_A = None
    if have_single:
        existing_single = Clazz()
        daemon._pyroInstances[Clazz] = existing_single
    if have_sessionA:
        existing_A = Clazz()
        connA.pyroInstances[Clazz] = existing_A
    instB = Clazz()
    connB.pyroInstances[Clazz] = instB
    n_before = len(CREATED)
    result = None
    exc = None
    try:
        result = daemon._getInstance(Clazz, connA)
    except Exception as x:
        exc = x
    n_created = len(CREATED) - n_before
    ncreator = len(CREATOR_CALLS)
    S.cover("mode:" + mode)
    falsy = False
    if shape == "Sized":
        falsy = Sized.length == 0
    if shape == "Booled":
        falsy = Not(Booled.truth)
    S.known("C09-falsy-instance-is-recreated",
            And(falsy, Or(And(mode == "single", have_single), And(mode == "session", have_sessionA))),
            checks=["single-reuses-the-instance", "single-reuse-creates-nothing", "session-reuses-the-connections-instance", "session-reuse-creates-nothing"])
    creator_ok = creator_kind in ("none", "makes-instance")
    if mode == "bogus":
        S.check("invalid-mode-is-refused", And(exc is not None, n_created == 0))
    elif mode == "single":
        if have_single:
            S.check("single-reuses-the-instance", result is existing_single)
            S.check("single-reuse-creates-nothing", And(n_created == 0, ncreator == 0))
        elif creator_ok:
            S.check("single-creates-exactly-one", And(exc is None, n_created == 1))
            S.check("single-stores-the-instance", daemon._pyroInstances.get(Clazz) is result)
            S.check("creator-called-once-per-instance", ncreator == (1 if creator_kind == "makes-instance" else 0))
        else:
            S.check("failing-creator-propagates", And(exc is not None, Clazz not in daemon._pyroInstances))
            S.check("failing-creator-called-once", ncreator == 1)
        S.check("single-does-not-touch-sessions", connB.pyroInstances.get(Clazz) is instB)
    elif mode == "session":
        if have_sessionA:
            S.check("session-reuses-the-connections-instance", result is existing_A)
            S.check("session-reuse-creates-nothing", And(n_created == 0, ncreator == 0))
        elif creator_ok:
            S.check("session-creates-exactly-one", And(exc is None, n_created == 1))
            S.check("session-stores-on-this-connection", connA.pyroInstances.get(Clazz) is result)
            S.check("creator-called-once-per-instance", ncreator == (1 if creator_kind == "makes-instance" else 0))
        else:
            S.check("failing-creator-propagates", And(exc is not None, Clazz not in connA.pyroInstances))
        S.check("session-instance-never-shared", result is not instB)
        S.check("other-connection-untouched", connB.pyroInstances.get(Clazz) is instB)
        S.check("session-does-not-touch-daemon-table", daemon._pyroInstances.get(Clazz) is existing_single)
    else:
        if creator_ok:
            S.check("percall-creates-a-fresh-instance", And(exc is None, n_created == 1, result is not existing_single,
                                                            result is not existing_A, result is not instB))
            S.check("creator-called-once-per-instance", ncreator == (1 if creator_kind == "makes-instance" else 0))
        else:
            S.check("failing-creator-propagates", exc is not None)
        S.check("percall-stores-nothing", And(daemon._pyroInstances.get(Clazz) is existing_single,
                                              connA.pyroInstances.get(Clazz) is existing_A))
    # the session instances are dropped when the connection ends
    if S.flag("peer_reset_so_shutdown_fails"):
        sockA.shutdown_fails = True
    connA.close()
    S.check("close-drops-session-instances", len(connA.pyroInstances) == 0)
    S.check("close-leaves-other-connections-alone", connB.pyroInstances.get(Clazz) is instB)
    S.observe("created", n_created)
    S.observe("creator_calls", ncreator)
    S.observe("raised", type(exc).__name__ if exc is not None else None)


SERIALS = []


class Counted:
    """nothing but the daemon's tables refers to an instance between two calls"""

    def __init__(self):
        SERIALS.append(len(SERIALS) + 1)
        self.serial = len(SERIALS)
        self.calls = 0


def h_lifetime(S, B):
    """consecutive calls: the instance of a single / session class lives as long as its daemon / connection, although
    the application keeps no reference to it between the calls"""
    import gc
    rig.reset(S)
    del SERIALS[:]
    mode = S.choice("mode", ["single", "session"])
    with_creator = S.flag("with_creator")

    class Clazz(Counted):
        pass
    Clazz._pyroInstancing = (mode, (lambda c: c()) if with_creator else None)
    daemon = rig.make_daemon()
    connA = rig.connection(rig.FakeSock("A"))
    connB = rig.connection(rig.FakeSock("B"))
    seen = []
    for conn_name in B["CALLS"]:
        inst = daemon._getInstance(Clazz, connA if conn_name == "A" else connB)
        inst.calls += 1
        seen.append((conn_name, inst.serial, inst.calls))
        inst = None
        gc.collect()
    S.cover("lifetime:" + mode)
    a = [(sn, c) for cn, sn, c in seen if cn == "A"]
    b = [(sn, c) for cn, sn, c in seen if cn == "B"]
    if mode == "single":
        S.check("one-instance-serves-every-call-of-the-daemon", [sn for cn, sn, c in seen] == [1] * len(seen))
        S.check("the-single-instance-keeps-its-state-between-calls", [c for cn, sn, c in seen] == list(range(1, len(seen) + 1)))
        S.check("single-instance-created-once", len(SERIALS) == 1)
    else:
        S.check("one-instance-per-connection", len(set(sn for sn, c in a)) == 1 and len(set(sn for sn, c in b)) == 1 and a[0][0] != b[0][0])
        S.check("the-session-instance-keeps-its-state-between-calls", [c for sn, c in a] == list(range(1, len(a) + 1)) and [c for sn, c in b] == list(range(1, len(b) + 1)))
        S.check("session-instances-created-once-per-connection", len(SERIALS) == 2)
    S.observe("seen", seen)


def h_behavior(S, B):
    """the behavior decorator stores exactly (mode, creator) and refuses anything else"""
    mode = S.choice("mode", ["single", "session", "percall", "Single", "", "per call"])
    creator = S.choice("creator", [None, "callable", "not-callable"])

    class K:
        pass

    def mk(c):
        return c()
    cr = None if creator is None else (mk if creator == "callable" else 42)
    exc = None
    try:
        server.behavior(mode, cr)(K)
    except Exception as x:
        exc = x
    valid = mode in ("single", "session", "percall") and creator != "not-callable"
    S.cover("behavior")
    if valid:
        S.check("behavior-stores-mode-and-creator", exc is None and K._pyroInstancing == (mode, cr))
    else:
        S.check("behavior-refuses-invalid", exc is not None and not hasattr(K, "_pyroInstancing"))


def _reset():
    from pysym.runner import default_reset
    default_reset()
    Sized.length = 1
    Booled.truth = True


INTERPRET_MODULES = ["harness.rig"]
STUBS = rig.STUBS

SPECS = [
    Spec("lifetime", h_lifetime, {"quick": {"CALLS": ["A", "A", "B", "A", "B"]}, "thorough": {"CALLS": ["A", "B", "A", "A", "B", "B", "A"]}},
         covers=["lifetime:single", "lifetime:session", "check:the-session-instance-keeps-its-state-between-calls"],
         native_patch=env.native_env, reset=_reset,
         desc="five (seven) consecutive _getInstance calls on two connections with a garbage collection between them and no reference to the instance kept by the caller: single and session instances survive and keep their state, one creation per daemon / per connection"),
    Spec("get_instance", h_get_instance,
         {"quick": {"SHAPES": ["Plain", "Sized", "Booled", "AllEqual", "EqualsAnything"]}, "thorough": {"SHAPES": ["Plain", "Sized", "Booled", "AllEqual", "EqualsAnything"]}},
         covers=["mode:single", "mode:session", "mode:percall", "mode:bogus", "check:single-reuses-the-instance",
                 "check:session-instance-never-shared", "check:close-drops-session-instances"],
         native_patch=env.native_env, reset=_reset,
         desc="one _getInstance step from every pre-state of the daemon-wide and per-connection tables, four modes, four creator behaviours, four instance shapes with symbolic truthiness"),
    Spec("behavior", h_behavior, {"quick": {}, "thorough": {}}, covers=["behavior"], native_patch=env.native_env,
         desc="the behavior decorator for valid and invalid modes/creators"),
]


def EXTRA(tier, seed):
    """schedule BMC of concurrent first calls on a 'single' class (symbmc)"""
    import os
    import json
    from symbmc import instances
    from pysym import check as C
    out = {"lines": [], "violations": 0, "errors": [], "inconclusive": [], "known_hit": {}, "coverage": {}, "assumptions": []}
    cfgs = [(2, 24)] if tier == "quick" else [(2, 30), (3, 40)]
    runs = []
    samples = []
    states = transitions = validated = 0
    for T, K in cfgs:
        r = instances.check(T, K)
        K = r["K"]        # grown to the number of CFG nodes: loop-free code, so every complete schedule fits
        print("[C09/symbmc] %d concurrent first calls, K=%d: %s wall=%.1fs nodes=%d" % (T, K, r["result"], r["wall_s"], r["nodes"]), flush=True)
        runs.append({"threads": T, "K": K, "result": r["result"], "wall_s": round(r["wall_s"], 2), "nodes": r["nodes"],
                     "assertions": r["assertions"], "completion_reachable": r["completion_reachable"],
                     "untranslated_but_unreachable_nodes": r["untranslated_nodes"]})
        states += K + 1
        transitions += K * r["nodes"]
        out["coverage"]["functions_encoded_symbmc"] = r["encoded"]
        if r["completion_reachable"] != "sat":
            out["errors"].append("vacuity guard: callers cannot complete within K=%d" % K)
        if r["result"] == "sat":
            v = r["violation"]
            det = instances.replay(T, v["schedule"], v["label"], v["model_lines"])
            if not det["reproduced"]:
                out["errors"].append("schedule for '%s' does not reproduce on the real Daemon: %r" % (v["label"], det))
                continue
            os.makedirs(os.path.join(C.OUT, "replays"), exist_ok=True)
            path = os.path.join(C.OUT, "replays", "C09-symbmc-%d.json" % T)
            json.dump({"property": "C09", "engine": "symbmc", "target": "instances", "threads": T, "label": v["label"],
                       "schedule": v["schedule"], "model_lines": v["model_lines"]}, open(path, "w"), indent=1)
            out["lines"].append("VIOLATION property=C09 replay=%s" % path)
            out["lines"].append("  '%s' with %d concurrent first calls; the schedule reproduces on the real Daemon with real threads: %r" % (v["label"], T, det))
            out["violations"] += 1
            validated += 1
            samples.append({"threads": T, "schedule": v["schedule"], "replay": det})
        elif r["result"] != "unsat":
            out["inconclusive"].append("solver answered %s" % r["result"])
    out["coverage"].update({"states": states, "transitions": transitions, "traces_validated_against_impl": validated,
                            "samples": samples, "symbmc_runs": runs})
    out["assumptions"] = ["statement-level atomicity (CPython GIL)", "the instance factory (nested helper, Daemon method or direct class call) is abstracted as one creation step",
                          "K = number of CFG nodes (the code is loop free, every node fires at most once); thread counts as listed"]
    return out
