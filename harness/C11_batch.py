"""C11 -- a batch behaves like the same calls made one after another.

Real code executed symbolically, client and server: client.BatchProxy.__getattr__/__call__/__resultsgenerator,
_BatchedRemoteMethod.__call__, Proxy._pyroInvokeBatch/_pyroInvoke, server.Daemon.handleRequest (batch branch and
single-call branch), _get_attribute, core._ExceptionWrapper.  Differential: the same call sequence is made one by
one on an identical twin object through the single-call path."""
from Pyro5 import protocol, errors, server, config, client, core
from Pyro5.server import expose
from pysym.runner import Spec
from pysym.api import And, Or, Not, Implies, eq
from pysym import env
from harness import rig


class Counter:
    def __init__(self):
        self.value = 0
        self.calls = 0

    @expose
    def add(self, k):
        self.calls += 1
        self.value = self.value + k
        return self.value

    @expose
    def put(self, k):
        self.calls += 1
        old = self.value
        self.value = k
        return old

    @expose
    def get(self):
        self.calls += 1
        return self.value

    @expose
    def fail_if(self, k):
        self.calls += 1
        if k > 0:
            raise ValueError("positive")
        return "fine"

    def unexposed(self, k):
        self.calls += 1
        self.value = -1
        return "never"

    def _private(self, k):
        self.calls += 1
        self.value = -2
        return "never"


MEMBERS = ["add", "put", "get", "fail_if", "unexposed", "_private", "nosuch"]
ALL_NAMES = {"add", "put", "get", "fail_if", "unexposed", "_private", "nosuch"}


def outcome_of(f):
    try:
        return ("value", f())
    except Exception as x:
        return ("raised", type(x).__name__)


def h_batch(S, B):
    rig.reset(S)
    n = S.choice("n_calls", list(range(0, B["N"] + 1)))
    oneway = S.flag("oneway_batch")
    calls = []
    for i in range(n):
        m = S.choice("call%d.member" % i, MEMBERS)
        k = S.int("call%d.arg" % i, -3, 3)
        calls.append((m, k))
    # ---- batch run
    d1 = rig.make_daemon()
    o1 = Counter()
    d1.objectsById["obj"] = o1
    # the proxy has been used before (it knows which members the object exposes) or is fresh (knows nothing yet)
    knows = S.flag("proxy_knows_the_metadata")
    p1, s1 = rig.make_proxy(d1, "obj", {"add", "put", "get", "fail_if"} if knows else set())
    batch = client.BatchProxy(p1)
    collect_error = None
    try:
        for m, k in calls:
            if m == "get":
                getattr(batch, m)()
            else:
                getattr(batch, m)(k)
    except Exception as x:
        collect_error = type(x).__name__
    S.check("no-failure-while-the-calls-are-collected", collect_error is None)
    if collect_error is not None:
        return
    batch_results = []
    batch_error = None
    submit_error = None
    try:
        it = batch(oneway=oneway)
        if not oneway:
            while True:
                try:
                    batch_results.append(next(it))
                except StopIteration:
                    break
                except Exception as x:
                    batch_error = type(x).__name__
                    break
    except Exception as x:
        submit_error = type(x).__name__
    rig.run_pending_threads()
    # ---- sequential run on an identical twin
    d2 = rig.make_daemon()
    o2 = Counter()
    d2.objectsById["obj"] = o2
    p2, s2 = rig.make_proxy(d2, "obj", ALL_NAMES)
    seq_results = []
    seq_error = None
    for m, k in calls:
        try:
            seq_results.append(p2._pyroInvoke(m, () if m == "get" else (k,), {}))
        except Exception as x:
            seq_error = type(x).__name__
            break
    # ---- oracle
    S.cover("batch:n=%d" % n)
    refused = ("unexposed", "_private", "nosuch")
    S.known("C11-results-before-a-refused-member-are-lost",
            len([i for i in range(1, n) if calls[i][0] in refused]) > 0, checks=["results-of-calls-before-the-failure-are-delivered"])
    S.check("same-final-state", o1.value == o2.value)
    S.check("same-number-of-calls-executed", o1.calls == o2.calls)
    S.check("one-request-for-the-whole-batch", s1.requests == 1)
    if oneway:
        S.check("oneway-batch-returns-nothing", And(batch_results == [], batch_error is None))
        S.check("oneway-batch-gets-no-reply", len(s1.inbox) == 0 and s1.recv_calls == 0)
        S.check("oneway-batch-submission-succeeds", submit_error is None)
    else:
        # the failure is the failing call's own exception, at its position or at submission
        S.check("same-failure", (submit_error or batch_error) == seq_error)
        if submit_error is None:
            S.check("same-number-of-results", len(batch_results) == len(seq_results))
            if len(batch_results) == len(seq_results):
                for a, b in zip(batch_results, seq_results):
                    S.check("same-results-in-order", eq(a, b))
        else:
            S.check("results-of-calls-before-the-failure-are-delivered", len(seq_results) == 0)
    # the batch proxy is empty again: a second submission executes nothing
    if submit_error is None:
        before = o1.calls
        try:
            again = batch(oneway=oneway)
            if again is not None:
                list(again)
        except Exception as x:
            S.check("resubmitting-an-empty-batch-is-harmless", False)
        rig.run_pending_threads()
        S.check("batch-is-cleared-after-submission", o1.calls == before)
    S.observe("batch", (batch_results, batch_error, submit_error))
    S.observe("state", (o1.value, o1.calls))


def _reset():
    from pysym.runner import default_reset
    default_reset()


INTERPRET_MODULES = ["harness.rig"]
STUBS = rig.STUBS

SPECS = [
    Spec("batch_vs_sequential", h_batch, {"quick": {"N": 2}, "thorough": {"N": 3}},
         covers=["batch:n=0", "batch:n=2", "check:same-results-in-order", "check:same-failure", "check:same-final-state"],
         native_patch=env.native_env, reset=_reset,
         desc="0..N batched calls over {add,put,get,fail_if,unexposed,_private,nosuch} with symbolic integer arguments through the real BatchProxy and the daemon's batch branch, normal and oneway, compared with one-by-one calls on a twin (results, failure position and kind, final symbolic state)"),
]
