"""C11 -- a batch behaves like the same calls made one after another.

Real code executed symbolically, client and server: client.BatchProxy.__getattr__/__call__/__resultsgenerator,
_BatchedRemoteMethod.__call__, Proxy._pyroInvokeBatch/_pyroInvoke, server.Daemon.handleRequest (batch branch and
single-call branch), _get_attribute, core._ExceptionWrapper.  Differential: the same call sequence is made one by
one on an identical twin object through the single-call path."""
from Pyro5 import protocol, errors, server, config, client, core
from Pyro5.server import expose
from pysym.runner import Spec
from pysym.api import And, Or, Not, Implies, eq
from pysym import env
from harness import rig


class Counter:
    def __init__(self):
        self.value = 0
        self.calls = 0

    @expose
    def add(self, k):
        self.calls += 1
        self.value = self.value + k
        return self.value

    @expose
    def put(self, k):
        self.calls += 1
        old = self.value
        self.value = k
        return old

    @expose
    def get(self):
        self.calls += 1
        return self.value

    @expose
    def fail_if(self, k):
        self.calls += 1
        if k > 0:
            raise ValueError("positive")
        return "fine"

    @expose
    def last_error(self, k):
        """a call that SUCCEEDS and whose result happens to be an exception object (an accessor for the last failure, say)"""
        self.calls += 1
        return ValueError("kept", k)

    def unexposed(self, k):
        self.calls += 1
        self.value = -1
        return "never"

    def _private(self, k):
        self.calls += 1
        self.value = -2
        return "never"


MEMBERS = ["add", "put", "get", "fail_if", "last_error", "unexposed", "_private", "nosuch"]
ALL_NAMES = {"add", "put", "get", "fail_if", "last_error", "unexposed", "_private", "nosuch"}


def same_value(a, b):
    if isinstance(a, BaseException) or isinstance(b, BaseException):
        return type(a) is type(b) and eq(a.args, b.args)
    return eq(a, b)


def outcome_of(f):
    try:
        return ("value", f())
    except Exception as x:
        return ("raised", type(x).__name__)


def h_batch(S, B):
    rig.reset(S)
    n = S.choice("n_calls", list(range(0, B["N"] + 1)))
    oneway = S.flag("oneway_batch")
    calls = []
    for i in range(n):
        m = S.choice("call%d.member" % i, MEMBERS)
        k = S.int("call%d.arg" % i, -3, 3)
        calls.append((m, k))
    # ---- batch run
    d1 = rig.make_daemon()
    o1 = Counter()
    d1.objectsById["obj"] = o1
    # the proxy has been used before (it knows which members the object exposes) or is fresh (knows nothing yet)
    knows = S.flag("proxy_knows_the_metadata")
    p1, s1 = rig.make_proxy(d1, "obj", {"add", "put", "get", "fail_if", "last_error"} if knows else set())
    batch = client.BatchProxy(p1)
    collect_error = None
    try:
        for m, k in calls:
            if m == "get":
                getattr(batch, m)()
            else:
                getattr(batch, m)(k)
    except Exception as x:
        collect_error = type(x).__name__
    S.check("no-failure-while-the-calls-are-collected", collect_error is None)
    if collect_error is not None:
        return
    batch_results = []
    batch_error = None
    submit_error = None
    try:
        it = batch(oneway=oneway)
        if not oneway:
            while True:
                try:
                    batch_results.append(next(it))
                except StopIteration:
                    break
                except Exception as x:
                    batch_error = type(x).__name__
                    break
    except Exception as x:
        submit_error = type(x).__name__
    rig.run_pending_threads()
    # ---- sequential run on an identical twin
    d2 = rig.make_daemon()
    o2 = Counter()
    d2.objectsById["obj"] = o2
    p2, s2 = rig.make_proxy(d2, "obj", ALL_NAMES)
    seq_results = []
    seq_error = None
    for m, k in calls:
        try:
            seq_results.append(p2._pyroInvoke(m, () if m == "get" else (k,), {}))
        except Exception as x:
            seq_error = type(x).__name__
            break
    # ---- oracle
    S.cover("batch:n=%d" % n)
    refused = ("unexposed", "_private", "nosuch")
    S.known("C11-results-before-a-refused-member-are-lost",
            len([i for i in range(1, n) if calls[i][0] in refused]) > 0, checks=["results-of-calls-before-the-failure-are-delivered"])
    S.check("same-final-state", o1.value == o2.value)
    S.check("same-number-of-calls-executed", o1.calls == o2.calls)
    S.check("one-request-for-the-whole-batch", s1.requests == 1)
    if oneway:
        S.check("oneway-batch-returns-nothing", And(batch_results == [], batch_error is None))
        S.check("oneway-batch-gets-no-reply", len(s1.inbox) == 0 and s1.recv_calls == 0)
        S.check("oneway-batch-submission-succeeds", submit_error is None)
    else:
        # the failure is the failing call's own exception, at its position or at submission
        S.check("same-failure", (submit_error or batch_error) == seq_error)
        if submit_error is None:
            S.check("same-number-of-results", len(batch_results) == len(seq_results))
            if len(batch_results) == len(seq_results):
                for a, b in zip(batch_results, seq_results):
                    S.check("same-results-in-order", same_value(a, b))
        else:
            S.check("results-of-calls-before-the-failure-are-delivered", len(seq_results) == 0)
    # the batch proxy is empty again: a second submission executes nothing
    if submit_error is None:
        before = o1.calls
        try:
            again = batch(oneway=oneway)
            if again is not None:
                list(again)
        except Exception as x:
            S.check("resubmitting-an-empty-batch-is-harmless", False)
        rig.run_pending_threads()
        S.check("batch-is-cleared-after-submission", o1.calls == before)
    S.observe("batch", (batch_results, batch_error, submit_error))
    S.observe("state", (o1.value, o1.calls))


@expose
@server.behavior(instance_mode="session")
class SessionCounter(Counter):
    """registered as a class: every connection gets an instance of its own"""


def h_sessions(S, B):
    """batches of two connections on a class-registered object: each batch runs on its own connection's instance, exactly
    like the same calls made one by one on that connection"""
    rig.reset(S)
    d = rig.make_daemon()
    d.objectsById["obj"] = SessionCounter
    names = {"add", "put", "get", "fail_if", "last_error"}
    pA, sA = rig.make_proxy(d, "obj", names)
    pB, sB = rig.make_proxy(d, "obj", names)
    kA = S.int("A.arg", -3, 3)
    kB = S.int("B.arg", -3, 3)
    first = S.choice("first_batch_from", ["A", "B"])
    warm = S.flag("A_made_a_single_call_before")
    base = 0
    if warm:
        base = pA._pyroInvoke("add", (10,), {})

    def run(p, k):
        b = client.BatchProxy(p)
        b.add(k)
        b.get()
        return list(b())
    if first == "A":
        rA = run(pA, kA)
        rB = run(pB, kB)
    else:
        rB = run(pB, kB)
        rA = run(pA, kA)
    S.cover("sessions")
    S.check("batch-of-A-runs-on-A-own-instance", And(eq(rA[0], base + kA), eq(rA[1], base + kA)))
    S.check("batch-of-B-runs-on-B-own-instance", And(eq(rB[0], kB), eq(rB[1], kB)))
    S.check("single-call-after-the-batch-sees-the-same-instance", And(eq(pA._pyroInvoke("get", (), {}), base + kA), eq(pB._pyroInvoke("get", (), {}), kB)))
    S.observe("results", (rA, rB))


def _reset():
    from pysym.runner import default_reset
    default_reset()


INTERPRET_MODULES = ["harness.rig"]
STUBS = rig.STUBS

SPECS = [
    Spec("batch_vs_sequential", h_batch, {"quick": {"N": 2}, "thorough": {"N": 3}},
         covers=["batch:n=0", "batch:n=2", "check:same-results-in-order", "check:same-failure", "check:same-final-state"],
         native_patch=env.native_env, reset=_reset,
         desc="0..N batched calls over {add,put,get,fail_if,last_error (returns an exception object),unexposed,_private,nosuch} with symbolic integer arguments through the real BatchProxy and the daemon's batch branch, normal and oneway, compared with one-by-one calls on a twin (results, failure position and kind, final symbolic state)"),
    Spec("sessions", h_sessions, {"quick": {}, "thorough": {}},
         covers=["sessions", "check:batch-of-B-runs-on-B-own-instance"],
         native_patch=env.native_env, reset=_reset,
         desc="two connections batch calls (symbolic arguments, either order, with or without an earlier single call) on a class registered with per-session instances: every batch runs on its own connection's instance"),
]
